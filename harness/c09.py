"""C09 -- forward-mode derivative drivers are exact.
Theorems: Props/C09.v (FwdDrivers.v: seed layouts and extraction formulas give Hessian / Hessian-vector / Jacobian for every N;
tensor interpolation: C15's bounded identity).
Correspondence: init_* seeds and extract_* formulas against the Coq model (exact); model-free predicate: integer polynomial
programs at integer points against analytic derivatives obtained from exact multivariate polynomial arithmetic (tolerance 0 where
float64 is exact), all drivers incl. init_tensor/extract_tensor for d <= 4; smooth generated programs: drivers cross-checked
against each other (Hessian row = Hessian-vector product, Jacobian column = Jacobian-vector product, tensor d=2 = Hessian)."""
import json, itertools, math
from fractions import Fraction
import numpy
import lib, progs
from lib import Report, qlit, qseq, seqseq, natseq

PID = 'C09'
IMPORTS = 'QcField Sums FwdDrivers'
DEFS = """
Definition hd (N : nat) (S : seq (seq Qc)) : bool := (hess_dirs K N : seq (seq Qc)) == S.
Definition eh (N : nat) (y2 : seq Qc) (H : seq (seq Qc)) : bool := (extract_hessian N (y2 : seq K) : seq (seq Qc)) == H.
Definition hvd (N : nat) (v : seq Qc) (S : seq (seq Qc)) : bool := (hess_vec_dirs N (v : seq K) : seq (seq Qc)) == S.
Definition ehv (N : nat) (y2 : seq Qc) (r : seq Qc) : bool := (extract_hess_vec N (y2 : seq K) : seq Qc) == r.
Definition jd (N : nat) (S : seq (seq Qc)) : bool := (jac_dirs K N : seq (seq Qc)) == S.
"""
F = Fraction


# ---------------------------------------------------------------- exact multivariate polynomials
class MP:
    """polynomial in N variables with Fraction coefficients: dict exponent-tuple -> coefficient"""
    def __init__(self, N, terms=None):
        self.N = N; self.t = {k: v for k, v in (terms or {}).items() if v != 0}

    @staticmethod
    def var(N, i):
        e = [0] * N; e[i] = 1
        return MP(N, {tuple(e): F(1)})

    @staticmethod
    def const(N, c):
        return MP(N, {tuple([0] * N): F(c)})

    def _co(self, o):
        return o if isinstance(o, MP) else MP.const(self.N, F(o))

    def __add__(s, o):
        o = s._co(o); t = dict(s.t)
        for k, v in o.t.items():
            t[k] = t.get(k, 0) + v
        return MP(s.N, t)
    __radd__ = __add__
    def __neg__(s): return MP(s.N, {k: -v for k, v in s.t.items()})
    def __sub__(s, o): return s + (-s._co(o))
    def __rsub__(s, o): return s._co(o) - s
    def __mul__(s, o):
        o = s._co(o); t = {}
        for k1, v1 in s.t.items():
            for k2, v2 in o.t.items():
                k = tuple(a + b for a, b in zip(k1, k2))
                t[k] = t.get(k, 0) + v1 * v2
        return MP(s.N, t)
    __rmul__ = __mul__
    def __pow__(s, n):
        r = MP.const(s.N, 1)
        for _ in range(int(n)):
            r = r * s
        return r

    def diff(s, alpha):
        """partial derivative of multi-order alpha"""
        t = {}
        for k, v in s.t.items():
            if all(a <= b for a, b in zip(alpha, k)):
                c = v
                for a, b in zip(alpha, k):
                    for q in range(a):
                        c *= (b - q)
                kk = tuple(b - a for a, b in zip(alpha, k))
                t[kk] = t.get(kk, 0) + c
        return MP(s.N, t)

    def at(s, x):
        tot = F(0)
        for k, v in s.t.items():
            m = v
            for xi, e in zip(x, k):
                m *= F(xi) ** e
            tot += m
        return tot


def run_poly(prog, N):
    """evaluate an integer polynomial program symbolically; buffer reads are VIEWS (dereferenced when used), as in NumPy"""
    regs = []
    x = [MP.var(N, i) for i in range(N)]
    bufs = {}

    def val(r):
        v = regs[r]
        return bufs[v[1]][v[2]] if isinstance(v, tuple) and v[0] == 'ref' else v

    def opnd(o):
        return val(o[1]) if o[0] == 'r' else MP.const(N, F(o[1]))
    for ins in prog['instrs']:
        k = ins[0]
        if k == 'x':
            regs.append(x[ins[1]])
        elif k == 'bin':
            a, b = opnd(ins[2]), opnd(ins[3])
            regs.append(a + b if ins[1] == 'add' else a - b if ins[1] == 'sub' else a * b)
        elif k == 'pow':
            regs.append(val(ins[1]) ** ins[2])
        elif k == 'zeros':
            bufs[len(regs)] = [MP.const(N, 0)] * ins[1]; regs.append(('buf', len(regs)))
        elif k == 'set':
            b = list(bufs[ins[1]]); b[ins[2]] = opnd(ins[3]); bufs[ins[1]] = b
        elif k == 'get':
            regs.append(('ref', ins[1], ins[2]))
        else:
            raise ValueError(k)
    return [val(r) for r in prog['ret']]


def main(tier, seed):
    ap = lib.import_algopy()
    import c04
    UTPM = ap.UTPM
    rep = Report(PID, tier, seed)
    rep.rule = ('seeds/extractions for N in 1..6 (thorough 8) against the Coq model; integer polynomial programs (degree <= 4 effective) at integer '
                'points: extract_jacobian, extract_jac_vec, extract_hessian, extract_hess_vec, extract_tensor (d<=3, quick; d<=4 thorough) against '
                'analytic derivatives from exact polynomial arithmetic; smooth generated programs: mutual consistency of the drivers; '
                'non-trivial = N>=2; distinct by content')
    rep.assumptions = ['that coefficient d of f(x + t s) is the d-th directional derivative / d! is C01/C12 (chain rule)',
                       'tensor extraction relies on the interpolation identity proved only for N<=4, d<=5 (C15)']
    rep.theorems()
    rng = lib.rng_for(seed, PID)
    terms, metas = [], []

    def add(term, meta):
        terms.append(term); metas.append(meta)

    # ---------------- seeds and extraction formulas vs Coq model
    for N in range(1, 7 if tier == 'quick' else 9):
        x = numpy.arange(1, N + 1, dtype=float)
        S = UTPM.init_hessian(x).data[1]
        add('(hd %d %s)' % (N, seqseq([[lib.frac(v) for v in r] for r in S])), dict(kind='init_hessian', N=N))
        J = UTPM.init_jacobian(x).data[1]
        add('(jd %d %s)' % (N, seqseq([[lib.frac(v) for v in r] for r in J])), dict(kind='init_jacobian', N=N))
        for _ in range(3):
            M_ = N * (N + 1) // 2
            y2 = numpy.array([rng.randint(-20, 20) / 4 for _ in range(M_)])
            y = UTPM(numpy.array([numpy.zeros(M_), numpy.zeros(M_), y2]))
            H = UTPM.extract_hessian(N, y)
            add('(eh %d %s %s)' % (N, qseq([lib.frac(v) for v in y2]), seqseq([[lib.frac(v) for v in r] for r in H])), dict(kind='extract_hessian', N=N))
            v = numpy.array([rng.randint(-8, 8) / 4 for _ in range(N)])
            Sv = UTPM.init_hess_vec(x, v).data[1]
            add('(hvd %d %s %s)' % (N, qseq([lib.frac(c) for c in v]), seqseq([[lib.frac(c) for c in r] for r in Sv])), dict(kind='init_hess_vec', N=N))
            y2 = numpy.array([rng.randint(-20, 20) / 4 for _ in range(2 * N + 1)])
            yv = UTPM(numpy.array([numpy.zeros(2 * N + 1), numpy.zeros(2 * N + 1), y2]))
            r = UTPM.extract_hess_vec(N, yv)
            add('(ehv %d %s %s)' % (N, qseq([lib.frac(c) for c in y2]), qseq([lib.frac(c) for c in r])), dict(kind='extract_hess_vec', N=N))

    # ---------------- integer polynomial programs at integer points: exact analytic derivatives
    n_poly = 60 if tier == 'quick' else 800
    dmax = 3 if tier == 'quick' else 4
    for _ in range(n_poly):
        N = rng.randint(1, 4)
        prog = c04.poly_prog(rng, N)
        # avoid reading a view after its cell was overwritten is guaranteed by poly_prog's fixed buffer pattern
        text = progs.to_text(prog)
        x = numpy.array([float(rng.randint(-3, 3)) for _ in range(N)])
        v = numpy.array([float(rng.randint(-2, 2)) for _ in range(N)])
        f = lambda z: progs.run(prog, z, ap)[0]
        try:
            p = run_poly(prog, N)[0]
        except Exception as e:
            rep.notes.append('symbolic evaluation failed %r' % e); continue
        deg = max([sum(k) for k in p.t] + [0])
        if deg > 8:
            continue
        grad = [p.diff(tuple(int(i == j) for j in range(N))).at(x) for i in range(N)]
        hess = [[p.diff(tuple(int(i == k) + int(j == k) for k in range(N))).at(x) for j in range(N)] for i in range(N)]
        big = max([abs(c) for c in grad] + [abs(c) for r in hess for c in r] + [1])
        exact_ok = big < 2 ** 40
        tol = 0.0 if exact_ok else 1e-9
        meta = dict(program=text[:300], N=N, x=x.tolist(), degree=deg)

        def cmp(name, got, want):
            rep.count('driver', name)
            rep.case((name, text, repr(x.tolist()), repr(v.tolist())), N >= 2, sample=dict(driver=name, **meta))
            got = numpy.asarray(got, dtype=float); want = numpy.array([[float(c) for c in r] if isinstance(r, list) else float(r) for r in want])
            if got.shape != want.shape or not numpy.all(numpy.abs(got - want) <= tol * (1 + numpy.abs(want))):
                rep.violation('poly:' + name, '%s of an integer polynomial program at an integer point differs from the analytic derivative' % name,
                              dict(kind='poly', driver=name, prog=prog, case=meta, got=got.tolist(), want=want.tolist()))
        try:
            cmp('extract_jacobian', UTPM.extract_jacobian(f(UTPM.init_jacobian(x))), grad)
            cmp('extract_jac_vec', numpy.atleast_1d(UTPM.extract_jac_vec(f(UTPM.init_jac_vec(x, v)))).reshape(-1)[:1],
                [sum(g * F(vi) for g, vi in zip(grad, v))])
            cmp('extract_hessian', UTPM.extract_hessian(N, f(UTPM.init_hessian(x))), hess)
            cmp('extract_hessian(int dtype)', UTPM.extract_hessian(N, f(UTPM.init_hessian(x.astype(int)))), hess)
            cmp('extract_hess_vec', UTPM.extract_hess_vec(N, f(UTPM.init_hess_vec(x, v))), [sum(hess[i][j] * F(v[j]) for j in range(N)) for i in range(N)])
            # integer-typed seed points (the inferred dtype must become float), with non-integer direction vectors
            xi = x.astype(int); vf = v + 0.5
            hv_f = [sum(hess[i][j] * F(vf[j]) for j in range(N)) for i in range(N)]
            cmp('extract_hess_vec(int seed)', UTPM.extract_hess_vec(N, f(UTPM.init_hess_vec(xi, vf))), hv_f)
            cmp('extract_jac_vec(int seed)', numpy.atleast_1d(UTPM.extract_jac_vec(f(UTPM.init_jac_vec(xi, vf)))).reshape(-1)[:1],
                [sum(g * F(vi) for g, vi in zip(grad, vf))])
            cmp('extract_jacobian(int seed)', UTPM.extract_jacobian(f(UTPM.init_jacobian(xi))), grad)
            for d in range(1, dmax + 1):
                if N > 3 and d > 3:
                    continue
                import algopy.exact_interpolation as ei
                mi = ei.generate_multi_indices(N, d)
                want = []
                for alpha in mi:
                    fact = 1
                    for a in alpha:
                        fact *= math.factorial(int(a))
                    want.append(p.diff(tuple(int(a) for a in alpha)).at(x) / fact)
                got = UTPM.extract_tensor(N, f(UTPM.init_tensor(d, x)), as_full_matrix=False)
                rep.count('driver', 'extract_tensor:d=%d' % d)
                rep.case(('tensor', d, text, repr(x.tolist())), N >= 2, sample=dict(driver='extract_tensor', d=d, **meta))
                got = numpy.asarray(got, dtype=float).reshape(-1); wantf = numpy.array([float(c) for c in want])
                if got.shape != wantf.shape or not numpy.all(numpy.abs(got - wantf) <= 1e-9 * (1 + numpy.abs(wantf)) * d ** d):
                    rep.violation('poly:extract_tensor', 'extract_tensor (d=%d, N=%d) differs from the analytic partial derivatives / multi-index factorial' % (d, N),
                                  dict(kind='poly', driver='extract_tensor', d=d, prog=prog, case=meta, got=got.tolist(), want=wantf.tolist()))
        except Exception as e:
            rep.violation('poly:exception:%s' % type(e).__name__, 'forward driver raises %r on an integer polynomial program' % (e,), dict(kind='poly', prog=prog, case=meta, exc=repr(e)))

    # ---------------- tensors of homogeneous polynomials with a distinct coefficient for EVERY multi-index of degree d (all mixed monomials,
    # also those with two or more exponents >= 2), at a non-zero integer point: partial^alpha f / alpha! = c_alpha exactly
    import algopy.exact_interpolation as ei
    sweep = [(1, 4), (1, 8), (1, 10), (2, 1), (2, 2), (2, 3), (2, 4), (2, 5), (2, 8), (2, 9), (3, 2), (3, 3), (3, 4), (4, 2), (4, 3)] + ([(2, 6), (3, 5), (4, 4), (5, 3)] if tier != 'quick' else [])
    for N, d in sweep:
        mi = [tuple(int(a) for a in al) for al in ei.generate_multi_indices(N, d)]
        coef = [rng.choice([-1, 1]) * (k + 2) for k in range(len(mi))]
        x = numpy.array([float(rng.choice([-2, -1, 1, 2, 3])) for _ in range(N)])

        def fh(z):
            acc = None
            for c, al in zip(coef, mi):
                t = None
                for i in range(N):
                    if al[i]:
                        q = z[i] ** al[i]
                        t = q if t is None else t * q
                t = t * float(c)
                acc = t if acc is None else acc + t
            return acc
        rep.count('driver', 'extract_tensor:homogeneous:d=%d' % d)
        rep.case(('tensor-homogeneous', N, d, repr(coef), repr(x.tolist())), N >= 2, sample=dict(driver='extract_tensor', kind='homogeneous polynomial, all multi-indices', N=N, d=d))
        try:
            got = numpy.asarray(UTPM.extract_tensor(N, fh(UTPM.init_tensor(d, x)), as_full_matrix=False), dtype=float).reshape(-1)
            if got.shape != (len(mi),) or not numpy.all(numpy.abs(got - numpy.array(coef, dtype=float)) <= 1e-9 * d ** d * (1 + numpy.abs(coef))):
                rep.violation('tensor:homogeneous', 'extract_tensor (N=%d, d=%d) of sum_alpha c_alpha x^alpha: %s instead of the coefficients %s' % (N, d, got.tolist(), coef),
                              dict(kind='tensor-homogeneous', N=N, d=d, coef=coef, x=x.tolist(), got=got.tolist()))
        except Exception as e:
            rep.violation('tensor:homogeneous:exception', 'extract_tensor (N=%d, d=%d) raises %r' % (N, d, e), dict(kind='tensor-homogeneous', N=N, d=d, exc=repr(e)))

    # ---------------- smooth programs: mutual consistency
    n_s = 40 if tier == 'quick' else 600
    for _ in range(n_s):
        N = rng.randint(1, 4)
        prog = progs.gen_prog(rng, ap, N=N, nout=1)
        text = progs.to_text(prog)
        x = progs.rand_point(rng, N); v = progs.rand_point(rng, N)
        f = lambda z: progs.run(prog, z, ap)[0]
        rep.count('driver', 'consistency')
        rep.case(('smooth', text, repr(x.tolist()), repr(v.tolist())), N >= 2, sample=dict(driver='consistency', program=text[:200], N=N))
        try:
            g = numpy.asarray(UTPM.extract_jacobian(f(UTPM.init_jacobian(x)))).reshape(-1)
            jv = float(numpy.asarray(UTPM.extract_jac_vec(f(UTPM.init_jac_vec(x, v)))).reshape(-1)[0])
            H = numpy.asarray(UTPM.extract_hessian(N, f(UTPM.init_hessian(x))))
            hv = numpy.asarray(UTPM.extract_hess_vec(N, f(UTPM.init_hess_vec(x, v))))
            T2 = numpy.asarray(UTPM.extract_tensor(N, f(UTPM.init_tensor(2, x)), as_full_matrix=False)).reshape(-1)
            import algopy.exact_interpolation as ei
            mi = ei.generate_multi_indices(N, 2)
            h_from_t = numpy.zeros((N, N))
            for alpha, val in zip(mi, T2):
                idx = [i for i, a in enumerate(alpha) for _ in range(int(a))]
                fact = 2 if len(set(idx)) == 1 else 1
                h_from_t[idx[0], idx[1]] = h_from_t[idx[1], idx[0]] = val * fact
            sc = 1 + numpy.max(numpy.abs(H))
            bad = None
            if abs(jv - g @ v) > 1e-9 * (1 + abs(jv)): bad = 'J v != extract_jac_vec'
            elif numpy.max(numpy.abs(H @ v - hv)) > 1e-8 * sc * (1 + numpy.max(numpy.abs(v))): bad = 'H v != extract_hess_vec'
            elif numpy.max(numpy.abs(H - H.T)) > 1e-9 * sc: bad = 'Hessian not symmetric'
            elif numpy.max(numpy.abs(H - h_from_t)) > 1e-7 * sc: bad = 'tensor (d=2) != Hessian'
            if bad:
                rep.violation('smooth:' + bad.split()[0], 'forward drivers are mutually inconsistent: %s' % bad, dict(kind='smooth', prog=prog, x=x.tolist(), v=v.tolist()))
            # the same drivers at an integer-valued point handed over in an integer dtype (Python int, int32, int16, uint8) and as floats
            idt = rng.choice([int, numpy.int32, numpy.int16, numpy.uint8])
            xi = numpy.array([rng.randint(0 if idt is numpy.uint8 else -3, 3) for _ in range(N)])
            xf, xt = xi.astype(float), xi.astype(idt)
            rep.count('point dtype', numpy.dtype(idt).name)
            pairs = [('jacobian', lambda z: UTPM.extract_jacobian(f(UTPM.init_jacobian(z)))), ('jac_vec', lambda z: UTPM.extract_jac_vec(f(UTPM.init_jac_vec(z, v)))),
                     ('hessian', lambda z: UTPM.extract_hessian(N, f(UTPM.init_hessian(z)))), ('hess_vec', lambda z: UTPM.extract_hess_vec(N, f(UTPM.init_hess_vec(z, v)))),
                     ('tensor', lambda z: UTPM.extract_tensor(N, f(UTPM.init_tensor(2, z)), as_full_matrix=False))]
            for dname, dr in pairs:
                a_, b_ = numpy.asarray(dr(xf), dtype=float), numpy.asarray(dr(xt), dtype=float)
                fin = numpy.isfinite(a_)
                if a_.shape != b_.shape or not numpy.array_equal(fin, numpy.isfinite(b_)) or not numpy.allclose(a_[fin], b_[fin], rtol=1e-9, atol=1e-9):
                    rep.violation('smooth:int-point:' + dname, 'forward driver %s at the point %s given with dtype %s differs from the same point given as floats' % (dname, xi.tolist(), numpy.dtype(idt).name),
                                  dict(kind='smooth', prog=prog, x=xi.tolist(), dtype=numpy.dtype(idt).name, v=v.tolist()))
                    break
        except Exception as e:
            rep.violation('smooth:exception:%s' % type(e).__name__, 'forward driver raises %r' % (e,), dict(kind='smooth', prog=prog, x=x.tolist(), exc=repr(e)))

    # ---------------- several seeds alive at once: seeds created for a list of points first, evaluated afterwards, must give what one
    # seed at a time gives (seed constructors share no state and hand out independent arrays)
    n_b = 15 if tier == 'quick' else 200
    for _ in range(n_b):
        N = rng.randint(1, 3)
        prog = progs.gen_prog(rng, ap, N=N, nout=1, linalg=False)
        text = progs.to_text(prog)
        f = lambda z: progs.run(prog, z, ap)[0]
        pts = [progs.rand_point(rng, N) for _ in range(3)]
        v = progs.rand_point(rng, N)
        d = rng.randint(1, 3)
        drivers = {
            'jacobian': (lambda x: UTPM.init_jacobian(x), lambda y: UTPM.extract_jacobian(y)),
            'jac_vec': (lambda x: UTPM.init_jac_vec(x, v), lambda y: UTPM.extract_jac_vec(y)),
            'hessian': (lambda x: UTPM.init_hessian(x), lambda y: UTPM.extract_hessian(N, y)),
            'hess_vec': (lambda x: UTPM.init_hess_vec(x, v), lambda y: UTPM.extract_hess_vec(N, y)),
            'tensor': (lambda x: UTPM.init_tensor(d, x), lambda y: UTPM.extract_tensor(N, y, as_full_matrix=False)),
        }
        for name, (init, extract) in drivers.items():
            rep.count('driver', 'batch:' + name)
            rep.case(('batch', name, text, repr([p.tolist() for p in pts]), d), N >= 2, sample=dict(driver='seeds alive simultaneously: ' + name, N=N, program=text[:200]))
            try:
                one_by_one = [numpy.asarray(extract(f(init(p.copy())))) for p in pts]
                seeds = [init(p.copy()) for p in pts]
                snap = [numpy.array(s_.data, copy=True) for s_ in seeds[:1]]
                ys_ = [f(s_) for s_ in seeds]
                ysnap = [numpy.array(y_.data, copy=True) for y_ in ys_]
                batch = [numpy.array(extract(y_), copy=True) for y_ in ys_]
                again = [numpy.asarray(extract(y_)) for y_ in ys_]
                if not all(numpy.array_equal(a, b, equal_nan=True) for a, b in zip(batch, again)) or not all(numpy.array_equal(y_.data, sn, equal_nan=True) for y_, sn in zip(ys_, ysnap)):
                    rep.violation('extract-twice:' + name, 'extract_%s is not a pure function of the propagated polynomial: a second extraction differs or the polynomial was modified' % name,
                                  dict(kind='batch', driver=name, prog=prog, points=[p.tolist() for p in pts], v=v.tolist(), d=d))
                if not all(a.shape == b.shape and numpy.array_equal(a, b, equal_nan=True) for a, b in zip(one_by_one, batch)):
                    rep.violation('batch:' + name, 'init_%s: seeds created for three points before any evaluation give other derivatives than one seed at a time' % name,
                                  dict(kind='batch', driver=name, prog=prog, points=[p.tolist() for p in pts], v=v.tolist(), d=d))
            except Exception as e:
                rep.violation('batch:%s:exception' % name, 'forward driver %s raises %r' % (name, e), dict(kind='batch', driver=name, prog=prog, exc=repr(e)))

    # ---------------- array-valued programs (vector, matrix, 3-D results): y = reshape(C x + Q (x*x)), integer data, exact
    n_a = 30 if tier == 'quick' else 400
    for _ in range(n_a):
        N = rng.randint(1, 4)
        shp = rng.choice([(2,), (3,), (2, 3), (3, 2), (2, 2), (2, 2, 2), (3, 1, 2), (1, 3)])
        M = int(numpy.prod(shp))
        C = numpy.array([[rng.randint(-3, 3) for _ in range(N)] for _ in range(M)], dtype=float)
        Q = numpy.array([[rng.randint(-2, 2) for _ in range(N)] for _ in range(M)], dtype=float)
        x = numpy.array([rng.randint(-4, 4) for _ in range(N)], dtype=float); v = numpy.array([rng.randint(-3, 3) for _ in range(N)], dtype=float)
        f = lambda z: ap.reshape(ap.dot(C, z) + ap.dot(Q, z * z), shp)
        J = (C + 2 * Q * x[None, :]).reshape(shp + (N,))
        meta = dict(driver='array-valued', result_shape=list(shp), N=N)
        rep.count('driver', 'array-valued'); rep.count('array-valued:rank', len(shp))
        rep.case(('array', shp, N, C.tobytes().hex(), Q.tobytes().hex(), x.tobytes().hex(), v.tobytes().hex()), True, sample=meta)
        try:
            gj = numpy.asarray(UTPM.extract_jacobian(f(UTPM.init_jacobian(x))))
            gv = numpy.asarray(UTPM.extract_jac_vec(f(UTPM.init_jac_vec(x, v))))
            if gj.shape != J.shape or not numpy.array_equal(gj, J):
                rep.violation('array:extract_jacobian', 'extract_jacobian of a result of shape %s: shape %s, expected %s, or wrong entries' % (shp, gj.shape, J.shape),
                              dict(kind='array', case=meta, C=C.tolist(), Q=Q.tolist(), x=x.tolist()))
            if gv.shape != shp or not numpy.array_equal(gv, J @ v):
                rep.violation('array:extract_jac_vec', 'extract_jac_vec of a result of shape %s: shape %s, or entries differ from J v' % (shp, gv.shape),
                              dict(kind='array', case=meta, C=C.tolist(), Q=Q.tolist(), x=x.tolist(), v=v.tolist()))
        except Exception as e:
            rep.violation('array:exception:%s' % type(e).__name__, 'forward driver raises %r for a result of shape %s' % (e, shp), dict(kind='array', case=meta, exc=repr(e)))

    # ---------------- array-SHAPED points: x of rank 2 (and 3), direction v given in every shape NumPy broadcasts to x (full, scalar, row,
    # (1,b), column (a,1), nested list): extract_jac_vec = sum_ij dF/dx_ij * broadcast(v)_ij, integer data, exact
    for _ in range(12 if tier == 'quick' else 150):
        shp = rng.choice([(2, 3), (3, 2), (2, 2), (2, 1, 3)])
        x = numpy.array([rng.randint(-3, 3) for _ in range(int(numpy.prod(shp)))], dtype=float).reshape(shp)
        C = numpy.array([rng.randint(-3, 3) for _ in range(x.size)], dtype=float).reshape(shp)
        Q = numpy.array([rng.randint(-2, 2) for _ in range(x.size)], dtype=float).reshape(shp)
        fa = lambda z: ap.sum(C * z + Q * z * z)
        G = C + 2 * Q * x                                   # dF/dx
        forms = {'full': numpy.array([rng.randint(-3, 3) for _ in range(x.size)], dtype=float).reshape(shp), 'scalar': 2.0,
                 'row': numpy.array([rng.randint(-3, 3) for _ in range(shp[-1])], dtype=float),
                 'leading-1': numpy.array([rng.randint(-3, 3) for _ in range(shp[-1])], dtype=float).reshape((1,) * (len(shp) - 1) + (shp[-1],)),
                 'column': numpy.array([rng.randint(-3, 3) for _ in range(shp[0])], dtype=float).reshape((shp[0],) + (1,) * (len(shp) - 1))}
        forms['column as nested list'] = forms['column'].tolist()
        for fname, v in forms.items():
            rep.count('driver', 'jac_vec: array-shaped point'); rep.count('direction given as', fname)
            rep.case(('jac_vec-array', shp, fname, x.tobytes().hex(), repr(numpy.asarray(v).tolist())), True, sample=dict(driver='extract_jac_vec', point_shape=list(shp), direction=fname))
            try:
                want = float(numpy.sum(G * numpy.broadcast_to(numpy.asarray(v, dtype=float), shp)))
                got = float(numpy.asarray(UTPM.extract_jac_vec(fa(UTPM.init_jac_vec(x, v)))).reshape(-1)[0])
                if got != want:
                    rep.violation('array-point:jac_vec:%s' % fname, 'extract_jac_vec at a point of shape %s with the direction given as %s: %r, expected %r' % (shp, fname, got, want),
                                  dict(kind='array-point', shape=list(shp), form=fname, x=x.tolist(), v=numpy.asarray(v).tolist(), C=C.tolist(), Q=Q.tolist()))
            except Exception as e:
                rep.violation('array-point:jac_vec:%s:exception' % fname, 'init_jac_vec / extract_jac_vec at a point of shape %s with the direction given as %s raises %r' % (shp, fname, e),
                              dict(kind='array-point', shape=list(shp), form=fname, exc=repr(e)))

    # ---------------- the tensor driver within call histories (seeded / default generator calls, callers scribbling on results in between)
    import c15
    c15.histories(rep, rng, tier)

    verdicts, logs = lib.eval_bool_cases(PID, IMPORTS, DEFS, terms, per_file=100)
    bad = 0
    for m, vd, t in zip(metas, verdicts, terms):
        rep.count('coq:kind', m['kind'])
        rep.case((m['kind'], m['N'], t[:300]), m['N'] >= 2, sample=m)
        if vd is None:
            bad += 1
        elif not vd:
            rep.violation('model:' + m['kind'], '%s (N=%d) differs from the proved model FwdDrivers.v' % (m['kind'], m['N']), dict(kind='model', case=m, coq_term=t[:3000]))
    if bad or logs:
        rep.violation('corr:uneval', 'correspondence corr.C09 could not be evaluated for %d cases' % bad, dict(kind='correspondence', name='corr.C09', log=logs[:3]), no_input=True)
    import r10
    r10.c09_point_layouts(rep, ap, rng, tier)
    return rep.finish()


def replay(path):
    pl = json.load(open(path))
    return main(pl.get('tier', 'quick'), pl.get('seed', 0))
