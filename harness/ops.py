"""Registry of operations for the structural properties C10/C11/C12/C14: each op generates a case (list of UTPM
input arrays + parameters) and can be run on arbitrary replacement inputs (a single direction, a truncated
series, ...).  run() returns the list of output coefficient arrays."""
from fractions import Fraction
import numpy
import elem, lib

F = Fraction


LAYOUT = 'C'          # set by a caller around a case: 'F' / 'T' hand the kernels coefficient arrays that are not C-contiguous


def _as(a):
    """no copy when the caller already holds a float ndarray (C14 snapshots the very buffer the UTPM wraps)"""
    r = a if isinstance(a, numpy.ndarray) and a.dtype == float else numpy.array(a, dtype=float)
    if LAYOUT != 'C':
        import lib
        r = lib.relayout(r, LAYOUT)
    return r


class Op:
    def __init__(self, name, gen, run, family):
        self.name, self.gen, self.run, self.family = name, gen, run, family


OPS = {}


def _timed(fn, seconds=60):
    """an operation of the implementation that does not return is reported (TimeoutError), not waited for"""
    import signal, functools

    @functools.wraps(fn)
    def wrapper(*a, **k):
        def handler(signum, frame):
            raise TimeoutError('operation did not return within %d s' % seconds)
        old = signal.signal(signal.SIGALRM, handler)
        signal.alarm(seconds)
        try:
            return fn(*a, **k)
        finally:
            signal.alarm(0)
            signal.signal(signal.SIGALRM, old)
    return wrapper


def reg(op):
    op.run = _timed(op.run)
    OPS[op.name] = op


# ---------------------------------------------------------------- element-wise functions (table of elem.py)
def _gen_elem(fn):
    def gen(rng, Dmax=6, Pmax=3):
        c = elem.gen_case(rng, fn, Dmax=max(2, Dmax), Pmax=Pmax)
        return dict(op='elem:' + fn.name, inputs=[c['data']], prm=c['prm'], route=c['route'])
    return gen


def _run_elem(fn):
    def run(algopy, case, inputs):
        x = algopy.UTPM(_as(inputs[0]))
        D, P = x.data.shape[:2]
        y = elem.call_impl(algopy, fn, case['route'], x, case['prm'])
        return [elem.result_data(algopy, y, (D, P))]
    return run


for _n, _fn in elem.FUNCS.items():
    reg(Op('elem:' + _n, _gen_elem(_fn), _run_elem(_fn), 'elementwise'))


# ---------------------------------------------------------------- arithmetic
def _rand_utpm(rng, D, P, shp, base_nz=False, lo=-16, hi=16):
    data = numpy.zeros((D, P) + tuple(shp))
    for idx in numpy.ndindex(*data.shape):
        while True:
            v = F(rng.randint(lo, hi), 8)
            if not (base_nz and idx[0] == 0 and abs(v) < F(1, 4)):
                break
        data[idx] = float(v)
    return data


_PAIRS = [((), ()), ((3,), (3,)), ((2, 3), (3,)), ((2, 1), (1, 3)), ((2, 2), (2, 2)), ((3,), ()), ((), (2,))]


def _gen_arith(opname):
    def gen(rng, Dmax=6, Pmax=3):
        D = rng.randint(2, max(2, Dmax)); P = rng.randint(1, Pmax)
        xs, ys = rng.choice(_PAIRS)
        kind = rng.choice(['utpm', 'utpm', 'const_right', 'const_left'])
        x = _rand_utpm(rng, D, P, xs, base_nz=True)
        if kind == 'utpm':
            y = _rand_utpm(rng, D, P, ys, base_nz=True)
            return dict(op='arith:' + opname, inputs=[x.tolist(), y.tolist()], kind=kind)
        # constants of shape (P,) / (P,1) provoke confusion between the direction axis and an element axis
        cshape = rng.choice([ys, ys, (P,) if len(xs) == 1 and xs[0] == P else ys, ()])
        try:
            numpy.broadcast_shapes(xs, cshape)
        except ValueError:
            cshape = ()
        c = numpy.array([float(F(rng.choice([-12, -6, -3, 3, 4, 10, 20]), 8)) for _ in range(int(numpy.prod(cshape, dtype=int)))]).reshape(cshape)
        return dict(op='arith:' + opname, inputs=[x.tolist()], kind=kind, const=c.tolist(), cshape=list(cshape))
    return gen


def _run_arith(opname):
    f = {'add': lambda a, b: a + b, 'sub': lambda a, b: a - b, 'mul': lambda a, b: a * b, 'div': lambda a, b: a / b}[opname]

    def run(algopy, case, inputs):
        x = algopy.UTPM(_as(inputs[0]))
        if case['kind'] == 'utpm':
            y = algopy.UTPM(_as(inputs[1]))
            return [numpy.asarray(f(x, y).data)]
        c = numpy.array(case['const'], dtype=float).reshape(case['cshape'])
        if c.shape == ():
            c = float(c)
        z = f(x, c) if case['kind'] == 'const_right' else f(c, x)
        return [numpy.asarray(z.data)]
    return run


for _o in ('add', 'sub', 'mul', 'div'):
    reg(Op('arith:' + _o, _gen_arith(_o), _run_arith(_o), 'arithmetic'))


def ops_for(pid):
    return {n: o for n, o in OPS.items() if getattr(o, 'only', None) is None or pid in o.only}


def families():
    return sorted(set(o.family for o in OPS.values()))


# ---------------------------------------------------------------- linear algebra and factorizations
def _spd_or_general(rng, n, kind):
    import numpy.linalg as la
    if kind == 'spd':
        L = numpy.tril(numpy.array([[rng.randint(-4, 4) / 4 for _ in range(n)] for _ in range(n)]), -1) + numpy.diag([rng.choice([1, 1.5, 2]) for _ in range(n)])
        return L @ L.T
    if kind == 'sym':
        S = numpy.zeros((n, n))
        for i in range(n):
            for j in range(i + 1, n):
                S[i, j] = rng.randint(-3, 3) / 4; S[j, i] = -S[i, j]
        Q = la.solve(numpy.eye(n) + S, numpy.eye(n) - S)
        lam = sorted(rng.sample([-4, -2.5, -1, 0.5, 2, 3.5, 5], n))
        A = Q @ numpy.diag(lam) @ Q.T
        return 0.5 * (A + A.T)
    A = numpy.array([[rng.randint(-4, 4) / 4 for _ in range(n)] for _ in range(n)]) + numpy.diag([rng.choice([3, 4, -3]) for _ in range(n)])
    if rng.random() < 0.5:
        A = A[rng.sample(range(n), n)]        # rows interchanged: partial pivoting really pivots, differently in every direction
    return A


def _gen_linalg(name, kind, nin=1):
    def gen(rng, Dmax=6, Pmax=3):
        D = rng.randint(2, max(2, min(Dmax, 5))); P = rng.randint(1, Pmax)
        n = rng.randint(2, 3)
        A = _rand_utpm(rng, D, P, (n, n))
        if kind in ('spd', 'sym'):
            A = 0.5 * (A + A.transpose((0, 1, 3, 2)))
        for p in range(P):
            A[0, p] = _spd_or_general(rng, n, kind)
        ins = [A.tolist()]
        if nin == 2:
            ins.append(_rand_utpm(rng, D, P, (n, rng.randint(1, 2))).tolist())
        return dict(op='linalg:' + name, inputs=ins)
    return gen


def _run_linalg(name):
    def run(algopy, case, inputs):
        A = algopy.UTPM(_as(inputs[0]))
        if name == 'dot':
            out = [algopy.dot(A, A)]
        elif name == 'solve':
            out = [algopy.solve(A, algopy.UTPM(_as(inputs[1])))]
        elif name in ('inv', 'det', 'logdet', 'trace', 'cholesky'):
            out = [getattr(algopy, name)(A)]
        elif name in ('qr', 'eigh', 'lu'):
            out = list(getattr(algopy, name)(A))
        else:
            raise ValueError(name)
        return [numpy.asarray(o.data) for o in out]
    return run


def _ref0_linalg(name):
    import scipy.linalg

    def ref0(case, ins0):
        A = ins0[0]
        if name == 'dot':
            return [numpy.dot(A, A)]
        if name == 'solve':
            return [numpy.linalg.solve(A, ins0[1])]
        if name == 'inv':
            return [numpy.linalg.inv(A)]
        if name == 'det':
            return [numpy.linalg.det(A)]
        if name == 'logdet':
            return [numpy.linalg.slogdet(A)[1]]
        if name == 'trace':
            return [numpy.trace(A)]
        if name == 'cholesky':
            return [numpy.linalg.cholesky(A)]
        if name == 'qr':
            return list(numpy.linalg.qr(A))
        if name == 'eigh':
            return list(numpy.linalg.eigh(A))
        if name == 'lu':
            return list(scipy.linalg.lu(A))
    return ref0


for _name, _kind, _nin in [('dot', 'general', 1), ('inv', 'general', 1), ('solve', 'general', 2), ('det', 'general', 1), ('logdet', 'general', 1),
                           ('trace', 'general', 1), ('cholesky', 'spd', 1), ('qr', 'general', 1), ('lu', 'general', 1), ('eigh', 'sym', 1)]:
    _op = Op('linalg:' + _name, _gen_linalg(_name, _kind, _nin), _run_linalg(_name), 'linalg')
    _op.ref0 = _ref0_linalg(_name)
    reg(_op)


# ---------------------------------------------------------------- dot / outer with two independent operands, every operand-kind mix
_PRODUCT_KIND = {}


def _gen_product(name):
    def gen(rng, Dmax=6, Pmax=3):
        D = rng.randint(2, max(2, min(Dmax, 5))); P = rng.randint(1, Pmax)
        _PRODUCT_KIND[name] = _PRODUCT_KIND.get(name, -1) + 1
        kind = ['UU', 'Ua', 'aU'][_PRODUCT_KIND[name] % 3]            # every operand-kind mix in turn (scheduled, not drawn)
        if name == 'outer':
            xs, ys = (rng.randint(1, 4),), (rng.randint(1, 4),)
        else:
            xs, ys = rng.choice([((3,), (3,)), ((2, 3), (3,)), ((3,), (3, 2)), ((2, 3), (3, 2)), ((3, 3), (3,)), ((2,), (2, 2)), ((1, 2), (2, 3))])
        x = _rand_utpm(rng, D, P, xs); y = _rand_utpm(rng, D, P, ys)
        if kind == 'UU':
            return dict(op='product:' + name, kind=kind, inputs=[x.tolist(), y.tolist()], const=None)
        if kind == 'Ua':
            return dict(op='product:' + name, kind=kind, inputs=[x.tolist()], const=y[0, 0].tolist())
        return dict(op='product:' + name, kind=kind, inputs=[y.tolist()], const=x[0, 0].tolist())
    return gen


def _product_args(case, ins, wrap):
    c = None if case['const'] is None else numpy.array(case['const'], dtype=float)
    if case['kind'] == 'UU':
        return wrap(ins[0]), wrap(ins[1])
    if case['kind'] == 'Ua':
        return wrap(ins[0]), c
    return c, wrap(ins[0])


def _run_product(name):
    def run(algopy, case, inputs):
        a, b = _product_args(case, inputs, lambda d: algopy.UTPM(_as(d)))
        return [numpy.asarray(getattr(algopy, name)(a, b).data)]
    return run


def _ref0_product(name):
    def ref0(case, ins0):
        a, b = _product_args(case, ins0, lambda d: numpy.asarray(d))
        return [getattr(numpy, name)(a, b)]
    return ref0


# symmetric eigenproblem with directions of very different magnitude and close (but distinct) eigenvalues in one of them: a decision
# such as "are these eigenvalues repeated" must be taken per direction
def _gen_eigh_gap(rng, Dmax=6, Pmax=3):
    import numpy.linalg as la
    D = rng.randint(2, 3); P = rng.randint(2, 3); n = 3
    A = _rand_utpm(rng, D, P, (n, n))
    A = 0.5 * (A + A.transpose((0, 1, 3, 2)))
    big = rng.randrange(P)
    for p in range(P):
        S = numpy.zeros((n, n))
        for i in range(n):
            for j in range(i + 1, n):
                S[i, j] = rng.randint(-3, 3) / 4; S[j, i] = -S[i, j]
        Q = la.solve(numpy.eye(n) + S, numpy.eye(n) - S)
        lam = [1.0e4, 2.5e4, -3.0e4] if p == big else [1.0, 1.0 + rng.choice([1e-5, 3e-6, 1e-4]), 3.0]
        A0 = Q @ numpy.diag(lam) @ Q.T
        A[0, p] = 0.5 * (A0 + A0.T)
    return dict(op='linalg:eigh_gap', inputs=[A.tolist()])


def _run_eigh_gap(algopy, case, inputs):
    l, Q = algopy.eigh(algopy.UTPM(_as(inputs[0])))
    return [numpy.asarray(l.data)]          # the eigenvalues: invariant under the sign/rotation conventions of the eigenvectors


_op = Op('linalg:eigh_gap', _gen_eigh_gap, _run_eigh_gap, 'linalg')
_op.only = ('C11',)
reg(_op)

# eigh with close (but simple) base eigenvalues and a LARGE highest-order coefficient: decisions taken on the base point (which eigenvalues
# count as repeated) must not look at coefficients the truncated run does not have
def _gen_eigh_close(rng, Dmax=6, Pmax=3):
    import numpy.linalg as la
    D = rng.randint(3, 4); P = rng.randint(1, 2); n = 3
    A = _rand_utpm(rng, D, P, (n, n))
    A = 0.5 * (A + A.transpose((0, 1, 3, 2)))
    for p in range(P):
        S = numpy.zeros((n, n))
        for i in range(n):
            for j in range(i + 1, n):
                S[i, j] = rng.randint(-3, 3) / 4; S[j, i] = -S[i, j]
        Q = la.solve(numpy.eye(n) + S, numpy.eye(n) - S)
        A0 = Q @ numpy.diag([1.0, 1.0 + rng.choice([1e-4, 3e-5, 1e-5]), 3.0]) @ Q.T
        A[0, p] = 0.5 * (A0 + A0.T)
    A[D - 1] *= rng.choice([1e4, 1e5, 1e6])
    return dict(op='linalg:eigh_close', inputs=[A.tolist()])


_op = Op('linalg:eigh_close', _gen_eigh_close, _run_eigh_gap, 'linalg')
_op.only = ('C12',)
reg(_op)

# the absolute value as operator / method (abs(x), x.fabs(), algopy.absolute) at base values that are EXACTLY zero in some entries: whatever the
# convention there, a coefficient of order d must not depend on coefficients of order > d nor on other directions
def _gen_abs_zero(rng, Dmax=6, Pmax=3):
    D = rng.randint(3, max(3, min(Dmax, 5))); P = rng.randint(1, Pmax)
    shp = rng.choice([(3,), (2, 2), (4,)])
    x = _rand_utpm(rng, D, P, shp)
    flat = x.reshape((D, P, -1))
    for p in range(P):
        for e in range(flat.shape[2]):
            r = rng.random()
            if r < 0.45:
                flat[0, p, e] = 0.0
                if r < 0.2 and D >= 3:
                    flat[1, p, e] = 0.0           # the first non-vanishing coefficient is of order 2
    x[D - 1] = numpy.where(x[D - 1] == 0, 0.75, x[D - 1]) * numpy.where(numpy.arange(x[D - 1].size).reshape(x[D - 1].shape) % 2 == 0, -1, 1)
    return dict(op='unary:abs_zero_base', inputs=[x.tolist()], form=rng.choice(['abs', 'fabs', 'absolute']))


def _run_abs_zero(algopy, case, inputs):
    x = algopy.UTPM(_as(inputs[0]))
    y = abs(x) if case['form'] == 'abs' else (x.fabs() if case['form'] == 'fabs' else algopy.absolute(x))
    return [numpy.asarray(y.data)]


_op = Op('unary:abs_zero_base', _gen_abs_zero, _run_abs_zero, 'elem')
_op.only = ('C11', 'C12', 'C14')
reg(_op)

# directions whose base points are NEARLY equal (relative differences 1e-6) or of tiny magnitude (1e-9): "the same base point as the
# previous direction" must be decided exactly, or not at all
def _gen_close_dirs(name, kind):
    def gen(rng, Dmax=6, Pmax=3):
        D = rng.randint(2, 4); P = 3; n = rng.randint(2, 3)
        A = _rand_utpm(rng, D, P, (n, n))
        if kind in ('spd', 'sym'):
            A = 0.5 * (A + A.transpose((0, 1, 3, 2)))
        A0 = _spd_or_general(rng, n, kind)
        B = numpy.array([[rng.randint(-4, 4) / 4 for _ in range(n)] for _ in range(n)]); B = 0.5 * (B + B.T)
        mode = rng.choice(['nearly equal', 'nearly equal', 'tiny'])
        for p in range(P):
            A[0, p] = A0 + p * 4e-6 * B if mode == 'nearly equal' else (_spd_or_general(rng, n, kind) * 1e-9)
        if mode == 'tiny':
            A[1:] *= 1e-9
        ins = [A.tolist()]
        if name == 'solve':
            ins.append(_rand_utpm(rng, D, P, (n, 2)).tolist())
        return dict(op='linalg:%s_close_dirs' % name, inputs=ins, mode=mode)
    return gen


for _name, _kind in [('cholesky', 'spd'), ('inv', 'general'), ('solve', 'general'), ('det', 'general'), ('qr', 'general'), ('eigh', 'sym'), ('lu', 'general')]:
    _op = Op('linalg:%s_close_dirs' % _name, _gen_close_dirs(_name, _kind), _run_linalg(_name), 'linalg')
    _op.only = ('C11',)
    reg(_op)

# magnitudes at which an intermediate product leaves the float64 range although the result is ordinary: log|det| of matrices with entries
# around 1e-90 / 1e+90 (det = 1e-360 / 1e+360), inv / solve / det of moderately scaled ones
def _gen_logdet_extreme(rng, Dmax=6, Pmax=3):
    D = rng.randint(1, 3); P = rng.randint(1, 2); n = 4
    A = _rand_utpm(rng, D, P, (n, n))
    for p in range(P):
        A[0, p] = _spd_or_general(rng, n, 'general')
    A *= rng.choice([1e-90, 1e90, 1e-60, 1e70])
    return dict(op='linalg:logdet_extreme', inputs=[A.tolist()])


_op = Op('linalg:logdet_extreme', _gen_logdet_extreme, lambda algopy, case, inputs: [numpy.asarray(algopy.logdet(algopy.UTPM(_as(inputs[0]))).data)], 'linalg')
_op.ref0 = lambda case, ins0: [numpy.linalg.slogdet(ins0[0])[1]]
_op.only = ('C10', 'C11')
reg(_op)

# trace / transpose / sum of RECTANGULAR matrices (tall with >= 2 more rows than columns, wide)
def _gen_rect(rng, Dmax=6, Pmax=3):
    D = rng.randint(1, max(1, min(Dmax, 4))); P = rng.randint(1, Pmax)
    shp = rng.choice([(4, 2), (5, 3), (3, 1), (2, 4), (1, 3), (6, 2), (3, 2), (2, 2)])
    return dict(op='linalg:trace_rect', inputs=[_rand_utpm(rng, D, P, shp).tolist()])


_op = Op('linalg:trace_rect', _gen_rect, lambda algopy, case, inputs: [numpy.asarray(algopy.trace(algopy.UTPM(_as(inputs[0]))).data)], 'linalg')
_op.ref0 = lambda case, ins0: [numpy.trace(ins0[0])]
reg(_op)

# qr with base points of DIFFERENT numerical rank in the directions (full rank next to rank-deficient ones), tall and square
def _gen_qr_mixed(rng, Dmax=6, Pmax=3):
    D = rng.randint(2, 4); P = rng.randint(2, 3)
    M, N = rng.choice([(3, 2), (4, 2), (4, 3), (3, 3), (2, 2), (5, 3)])
    A = _rand_utpm(rng, D, P, (M, N))
    ranks = [N] * P
    while len(set(ranks)) == 1:
        ranks = [rng.choice([N, N, N - 1, max(N - 2, 1)]) for _ in range(P)]
    for p in range(P):
        r = ranks[p]
        while True:
            B = numpy.array([[rng.randint(-3, 3) for _ in range(r)] for _ in range(M)], dtype=float)
            C = numpy.array([[rng.randint(-2, 2) for _ in range(N)] for _ in range(r)], dtype=float)
            C[:, :r] += 3 * numpy.eye(r)            # leading columns independent: the deficiency shows in the trailing diagonal of R
            if numpy.linalg.matrix_rank(B @ C) == r:
                break
        A[0, p] = B @ C / 2
    return dict(op='linalg:qr_mixed_rank', inputs=[A.tolist()], ranks=ranks)


def _run_qr_mixed(algopy, case, inputs):
    Q, R = algopy.qr(algopy.UTPM(_as(inputs[0])))
    return [numpy.asarray(Q.data), numpy.asarray(R.data)]


_op = Op('linalg:qr_mixed_rank', _gen_qr_mixed, _run_qr_mixed, 'linalg')
_op.only = ('C11',)
reg(_op)

# call forms with a caller-supplied, prefilled result buffer (the methods that honour out=: solve, cholesky)
def _stale(shape):
    # depends on the number of coefficients: a truncated run meets OTHER stale content than the full run
    return 7.25 + 0.5 * shape[0] + numpy.arange(int(numpy.prod(shape)), dtype=float).reshape(shape) / 3


def _gen_outbuf(name):
    def gen(rng, Dmax=6, Pmax=3):
        case = _gen_linalg(name, 'spd' if name == 'cholesky' else 'general', 2 if name == 'solve' else 1)(rng, Dmax, Pmax)
        case['op'] = 'linalg:%s_outbuf' % name
        return case
    return gen


def _run_outbuf(name):
    def run(algopy, case, inputs):
        A = algopy.UTPM(_as(inputs[0]))
        if name == 'solve':
            buf = algopy.UTPM(_stale(inputs[1].shape)); algopy.UTPM.solve(A, algopy.UTPM(_as(inputs[1])), out=buf)
        else:
            buf = algopy.UTPM(_stale(inputs[0].shape)); algopy.UTPM.cholesky(A, out=buf)
        return [numpy.asarray(buf.data)]
    return run


for _name in ('solve', 'cholesky'):
    _op = Op('linalg:%s_outbuf' % _name, _gen_outbuf(_name), _run_outbuf(_name), 'linalg')
    _op.only = ('C11', 'C12')
    reg(_op)

# general eigenproblem (first order only: UTPM.eig supports D <= 2), real distinct spectrum, non-normal matrices
def _gen_eig(rng, Dmax=6, Pmax=3):
    D = 2; P = rng.randint(1, Pmax); n = rng.randint(2, 3)
    A = _rand_utpm(rng, D, P, (n, n))
    for p in range(P):
        T = numpy.eye(n) + numpy.triu(numpy.array([[rng.randint(-2, 2) / 4 for _ in range(n)] for _ in range(n)]), 1)
        lam = sorted(rng.sample([-4, -2.5, -1, 0.5, 2, 3.5, 5], n))
        A[0, p] = T @ numpy.diag(lam) @ numpy.linalg.inv(T)
    return dict(op='linalg:eig', inputs=[A.tolist()])


def _run_eig(algopy, case, inputs):
    l, Q = algopy.eig(algopy.UTPM(_as(inputs[0])))
    return [numpy.asarray(l.data), numpy.asarray(Q.data)]


_op = Op('linalg:eig', _gen_eig, _run_eig, 'linalg')
_op.only = ('C11', 'C14')
reg(_op)

for _name in ('dot', 'outer'):
    _op = Op('product:' + _name, _gen_product(_name), _run_product(_name), 'product')
    _op.ref0 = _ref0_product(_name)
    reg(_op)


# ---------------------------------------------------------------- in-place arithmetic (x op= y): the result is x afterwards
def _gen_inplace(opname):
    def gen(rng, Dmax=6, Pmax=3):
        D = rng.randint(2, max(2, Dmax)); P = rng.randint(1, Pmax)
        xs = rng.choice([(), (3,), (2, 2), (2, 3), (P,), (P, 2), (3, 2)])
        # right operands that broadcast INTO the left one: same shape, scalar, trailing sub-shapes, extents of one
        cands = [xs, xs, ()]
        if len(xs) >= 1:
            cands += [xs[1:], (1,) * len(xs), (1,) + xs[1:]]
        if len(xs) >= 2:
            cands += [xs[:-1] + (1,)]
        ys = rng.choice(cands) if xs != () else ()
        x = _rand_utpm(rng, D, P, xs, base_nz=True)
        y = _rand_utpm(rng, D, P, ys, base_nz=True)
        return dict(op='inplace:' + opname, inputs=[x.tolist(), y.tolist()])
    return gen


def _run_inplace(opname):
    def run(algopy, case, inputs):
        x = algopy.UTPM(numpy.array(inputs[0], dtype=float))       # the left operand is modified: work on a copy
        y = algopy.UTPM(_as(inputs[1]))
        if opname == 'iadd':
            x += y
        elif opname == 'isub':
            x -= y
        elif opname == 'imul':
            x *= y
        else:
            x /= y
        return [numpy.asarray(x.data)]
    return run


def _ref0_inplace(opname):
    f = {'iadd': numpy.add, 'isub': numpy.subtract, 'imul': numpy.multiply, 'idiv': numpy.divide}[opname]
    return lambda case, ins0: [f(ins0[0], ins0[1])]


for _o in ('iadd', 'isub', 'imul', 'idiv'):
    _op = Op('inplace:' + _o, _gen_inplace(_o), _run_inplace(_o), 'arithmetic')
    _op.ref0 = _ref0_inplace(_o)
    reg(_op)


# ---------------------------------------------------------------- x // y (L'Hospital division for removable singularities; scalar-shaped polynomials)
def _gen_floordiv(rng, Dmax=6, Pmax=3):
    D = rng.randint(3, max(3, min(Dmax, 5))); P = rng.randint(1, Pmax)
    x = _rand_utpm(rng, D, P, ())
    y = _rand_utpm(rng, D, P, (), base_nz=True)
    for p in range(P):
        if rng.random() < 0.6:
            # removable singularity in this direction: both leading coefficients vanish, the next ones do not
            x[0, p] = 0.0; y[0, p] = 0.0
            if y[1, p] == 0:
                y[1, p] = 1.5
    return dict(op='arith:floordiv', inputs=[x.tolist(), y.tolist()])


def _run_floordiv(algopy, case, inputs):
    x = algopy.UTPM(_as(inputs[0])); y = algopy.UTPM(_as(inputs[1]))
    return [numpy.asarray((x // y).data)]


def _ref0_floordiv(case, ins0):
    # NumPy has no counterpart for the removable-singularity case: zeroth coefficient is x0/y0 only where y0 != 0
    with numpy.errstate(all='ignore'):
        return [numpy.where(ins0[1] != 0, ins0[0] / numpy.where(ins0[1] != 0, ins0[1], 1.0), numpy.nan)]


_op = Op('arith:floordiv', _gen_floordiv, _run_floordiv, 'arithmetic-lhospital')
_op.ref0 = _ref0_floordiv
# truncating the inputs can turn the removable singularity into 0/0 (the kernel then loops for ever) and NumPy has no
# counterpart for the zeroth coefficient: used for C11 (directions) and C14 (operands unchanged) only
_op.only = ('C11', 'C14')
reg(_op)


import ops_r9  # noqa: E402  (operations added after round 9; registers itself)
