"""Registry of operations for the structural properties C10/C11/C12/C14: each op generates a case (list of UTPM
input arrays + parameters) and can be run on arbitrary replacement inputs (a single direction, a truncated
series, ...).  run() returns the list of output coefficient arrays."""
from fractions import Fraction
import numpy
import elem, lib

F = Fraction


def _as(a):
    """no copy when the caller already holds a float ndarray (C14 snapshots the very buffer the UTPM wraps)"""
    return a if isinstance(a, numpy.ndarray) and a.dtype == float else numpy.array(a, dtype=float)


class Op:
    def __init__(self, name, gen, run, family):
        self.name, self.gen, self.run, self.family = name, gen, run, family


OPS = {}


def reg(op):
    OPS[op.name] = op


# ---------------------------------------------------------------- element-wise functions (table of elem.py)
def _gen_elem(fn):
    def gen(rng, Dmax=6, Pmax=3):
        c = elem.gen_case(rng, fn, Dmax=max(2, Dmax), Pmax=Pmax)
        return dict(op='elem:' + fn.name, inputs=[c['data']], prm=c['prm'], route=c['route'])
    return gen


def _run_elem(fn):
    def run(algopy, case, inputs):
        x = algopy.UTPM(_as(inputs[0]))
        D, P = x.data.shape[:2]
        y = elem.call_impl(algopy, fn, case['route'], x, case['prm'])
        return [elem.result_data(algopy, y, (D, P))]
    return run


for _n, _fn in elem.FUNCS.items():
    reg(Op('elem:' + _n, _gen_elem(_fn), _run_elem(_fn), 'elementwise'))


# ---------------------------------------------------------------- arithmetic
def _rand_utpm(rng, D, P, shp, base_nz=False, lo=-16, hi=16):
    data = numpy.zeros((D, P) + tuple(shp))
    for idx in numpy.ndindex(*data.shape):
        while True:
            v = F(rng.randint(lo, hi), 8)
            if not (base_nz and idx[0] == 0 and abs(v) < F(1, 4)):
                break
        data[idx] = float(v)
    return data


_PAIRS = [((), ()), ((3,), (3,)), ((2, 3), (3,)), ((2, 1), (1, 3)), ((2, 2), (2, 2)), ((3,), ()), ((), (2,))]


def _gen_arith(opname):
    def gen(rng, Dmax=6, Pmax=3):
        D = rng.randint(2, max(2, Dmax)); P = rng.randint(1, Pmax)
        xs, ys = rng.choice(_PAIRS)
        kind = rng.choice(['utpm', 'utpm', 'const_right', 'const_left'])
        x = _rand_utpm(rng, D, P, xs, base_nz=True)
        if kind == 'utpm':
            y = _rand_utpm(rng, D, P, ys, base_nz=True)
            return dict(op='arith:' + opname, inputs=[x.tolist(), y.tolist()], kind=kind)
        # constants of shape (P,) / (P,1) provoke confusion between the direction axis and an element axis
        cshape = rng.choice([ys, ys, (P,) if len(xs) == 1 and xs[0] == P else ys, ()])
        try:
            numpy.broadcast_shapes(xs, cshape)
        except ValueError:
            cshape = ()
        c = numpy.array([float(F(rng.choice([-12, -6, -3, 3, 4, 10, 20]), 8)) for _ in range(int(numpy.prod(cshape, dtype=int)))]).reshape(cshape)
        return dict(op='arith:' + opname, inputs=[x.tolist()], kind=kind, const=c.tolist(), cshape=list(cshape))
    return gen


def _run_arith(opname):
    f = {'add': lambda a, b: a + b, 'sub': lambda a, b: a - b, 'mul': lambda a, b: a * b, 'div': lambda a, b: a / b}[opname]

    def run(algopy, case, inputs):
        x = algopy.UTPM(_as(inputs[0]))
        if case['kind'] == 'utpm':
            y = algopy.UTPM(_as(inputs[1]))
            return [numpy.asarray(f(x, y).data)]
        c = numpy.array(case['const'], dtype=float).reshape(case['cshape'])
        if c.shape == ():
            c = float(c)
        z = f(x, c) if case['kind'] == 'const_right' else f(c, x)
        return [numpy.asarray(z.data)]
    return run


for _o in ('add', 'sub', 'mul', 'div'):
    reg(Op('arith:' + _o, _gen_arith(_o), _run_arith(_o), 'arithmetic'))


def families():
    return sorted(set(o.family for o in OPS.values()))
