"""C13 -- shape-manipulating operations act slice-wise like NumPy, with view semantics.
Theorems: Props/C13.v (gather maps of Array.v: slice-wise action, write-through, constant assignment, round trips).
Correspondence: (1) basic indexing: the offsets selected by x[ix] (read off from data that encodes its own flat offset)
against Array.getitem_gather, exactly; (2) model-free predicate: every operation against the same NumPy operation on every
(d,p) slice; NumPy's own view semantics (shares_memory, write-through) as the reference for views."""
import json
import numpy
import lib
from lib import Report, natseq, zlit

PID = 'C13'
IMPORTS = 'QcField Sums Series Array'
DEFS = """
Definition gi (ix : seq ixitem) (s : seq nat) (shp : seq nat) (offs : seq nat) : bool :=
  getitem_gather ix s == Some (shp, offs).
Definition gi_none (ix : seq ixitem) (s : seq nat) : bool := getitem_gather ix s == None.
Definition tr (perm : seq nat) (s shp offs : seq nat) : bool := transpose_gather perm s == (shp, offs).
Definition sl (a b : option Z) (st : Z) (n : nat) (l : seq nat) : bool := slice_list a b st n == l.
"""

LAYOUTS = ['C', 'C', 'F', 'T', 'C']
SHAPES = [(4,), (1,), (3, 2), (2, 3), (4, 1), (2, 3, 2), (1, 2, 3), (3, 1, 2), (5,), (2, 2), (2, 3, 4, 2), (2, 2, 2, 2), (2, 1, 3, 2, 2)]


def offset_utpm(algopy, D, P, shp):
    n = int(numpy.prod(shp, dtype=int))
    data = numpy.zeros((D, P) + tuple(shp))
    for d in range(D):
        for p in range(P):
            data[d, p] = (numpy.arange(n) + 1000 * (d * P + p)).reshape(shp)
    return algopy.UTPM(data)


def gen_item(rng, n, allow_new=True):
    r = rng.random()
    if r < 0.3:
        i = rng.randint(-n, n - 1)
        return ('int', i, rng.random() < 0.25)           # third: wrap in numpy.int64
    if r < 0.85:
        def b():
            return None if rng.random() < 0.35 else rng.randint(-n - 2, n + 2)
        return ('slice', b(), b(), rng.choice([None, 1, 1, 2, 3, -1, -1, -2, -3]))
    if r < 0.93 and allow_new:
        return ('new',)
    return ('full',)


def gen_index(rng, shp):
    """list of items; at most one Ellipsis; consumes at most len(shp) axes"""
    items = []
    k = rng.randint(0, len(shp))
    axes = list(shp)
    use_ell = rng.random() < 0.3
    ell_at = rng.randint(0, k) if use_ell else None
    ax = 0
    for j in range(k + 1):
        if ell_at == j:
            items.append(('ell',))
            # the ellipsis absorbs a random number of axes
            absorb = rng.randint(0, len(shp) - k) if k < len(shp) else 0
            ax += absorb + (len(shp) - k - absorb if True else 0)
        if j == k:
            break
        if rng.random() < 0.12:
            items.append(('new',))
        if ax < len(shp):
            items.append(gen_item(rng, shp[ax], allow_new=False))
            ax += 1
    if not use_ell and rng.random() < 0.1:
        items.append(('new',))
    return items


def py_index(items):
    out = []
    for it in items:
        if it[0] == 'int':
            out.append(numpy.int64(it[1]) if it[2] else int(it[1]))
        elif it[0] == 'slice':
            out.append(slice(it[1], it[2], it[3]))
        elif it[0] == 'new':
            out.append(numpy.newaxis)
        elif it[0] == 'ell':
            out.append(Ellipsis)
        else:
            out.append(slice(None))
    if len(out) == 1 and items and items[0][0] != 'new':
        return out[0]
    return tuple(out)


def coq_index(items):
    def oz(v):
        return 'None' if v is None else '(Some %s)' % zlit(v)
    out = []
    for it in items:
        if it[0] == 'int':
            out.append('(IInt %s)' % zlit(it[1]))
        elif it[0] == 'slice':
            out.append('(ISlice %s %s %s)' % (oz(it[1]), oz(it[2]), zlit(1 if it[3] is None else it[3])))
        elif it[0] == 'new':
            out.append('INew')
        elif it[0] == 'ell':
            out.append('IEll')
        else:
            out.append('(ISlice None None %s)' % zlit(1))
    return '[:: ' + '; '.join(out) + ']' if out else '[::]'


def index_valid(items, shp):
    try:
        numpy.zeros(shp)[py_index(items)]
        return True
    except Exception:
        return False


def main(tier, seed):
    algopy = lib.import_algopy()
    rep = Report(PID, tier, seed)
    rep.rule = ('index expressions from a grammar (ints incl. negative and numpy.int64, slices with None/out-of-range bounds and steps +-1..3, '
                'Ellipsis, newaxis, tuples) on 13 shapes of rank 1..5; setitem with scalar / ndarray / UTPM right-hand sides; reshape, transpose, '
                'sum over every axis, tile, diag, triu/tril, trace, symvec/vecsym, negative, conjugate/real/imag, fft/ifft, zeros/ones(-like); '
                'non-trivial = the index map is not the identity resp. the op changes the layout; distinct by (op, shape, arguments)')
    rep.assumptions = ['numpy.shares_memory / write-through are runtime facts: NumPy applied to one coefficient slice is the reference',
                       'symvec/vecsym, conj/real/imag, fft are decided by the slice-wise NumPy predicate only; sum / tile / diag / triu / tril / trace additionally against the Coq models Reduce.v and Mask.v']
    rep.theorems()
    rng = lib.rng_for(seed, PID)
    UTPM = algopy.UTPM
    terms, metas = [], []
    n_idx = 500 if tier == 'quick' else 6000

    # ---------------- python slice.indices vs model, exhaustive small range (exact)
    for n in range(0, 5 if tier == 'quick' else 7):
        for a in [None] + list(range(-6, 7)):
            for b in [None] + list(range(-6, 7)):
                for st in ([1, 2, -1, -2] if tier == 'quick' else [1, 2, 3, -1, -2, -3]):
                    if tier == 'quick' and rng.random() < 0.8:
                        continue
                    l = list(range(n))[slice(a, b, st)]
                    oz = lambda v: 'None' if v is None else '(Some %s)' % zlit(v)
                    terms.append('(sl %s %s %s %d%%N %s)' % (oz(a), oz(b), zlit(st), n, natseq(l)))
                    metas.append(dict(kind='slice_list', n=n, start=a, stop=b, step=st, expect=l))

    # ---------------- getitem: values, views, write-through, Coq gather
    for _ in range(n_idx):
        shp = rng.choice(SHAPES)
        D = rng.randint(1, 3); P = rng.randint(1, 2)
        items = gen_index(rng, shp)
        if not index_valid(items, shp):
            continue
        ix = py_index(items)
        x = offset_utpm(algopy, D, P, shp)
        base = x.data.copy()
        meta = dict(kind='getitem', shape=list(shp), D=D, P=P, index=repr(ix))
        rep.count('getitem:shape', shp)
        nontriv = True
        try:
            y = x[ix]
            ok = True
            for d in range(D):
                for p in range(P):
                    ref = base[d, p][ix]
                    if numpy.shape(y.data[d, p]) != numpy.shape(ref) or not numpy.array_equal(y.data[d, p], ref):
                        ok = False
            if not ok:
                rep.violation('getitem:value', 'x[%r] differs from NumPy indexing of the coefficient slices (shape %s)' % (ix, shp),
                              dict(kind='getitem', case=meta, items=items))
                continue
            # NumPy basic indexing of the coefficient array always returns a view
            shares_np = bool(numpy.shares_memory(x.data[(slice(None), slice(None)) + (ix if isinstance(ix, tuple) else (ix,))], x.data))
            if numpy.size(y.data) and bool(numpy.shares_memory(y.data, x.data)) != shares_np:
                rep.violation('getitem:view', 'x[%r] shares_memory=%s but NumPy basic indexing gives %s' % (ix, not shares_np, shares_np),
                              dict(kind='getitem', case=meta, items=items))
                continue
            # write through the view
            y.data[...] = -5.0
            expect = base.copy()
            for d in range(D):
                for p in range(P):
                    e = expect[d, p]
                    e[ix] = -5.0
            if not numpy.array_equal(x.data, expect):
                rep.violation('getitem:write-through', 'writing through x[%r] does not update exactly the selected parent cells' % (ix,),
                              dict(kind='getitem', case=meta, items=items))
                continue
            offs = [int(v) for v in numpy.asarray(base[0, 0][ix]).reshape(-1)]
            oshape = list(numpy.shape(base[0, 0][ix]))
            terms.append('(gi %s %s %s %s)' % (coq_index(items), natseq(shp), natseq(oshape), natseq(offs)))
            meta.update(out_shape=oshape, offsets=offs[:12])
            metas.append(meta)
        except Exception as e:
            rep.violation('getitem:exception:' + type(e).__name__, 'x[%r] on shape %s raises %r although NumPy accepts the index' % (ix, shp, e),
                          dict(kind='getitem', case=meta, items=items, exc=repr(e)))

    # ---------------- setitem
    n_set = 300 if tier == 'quick' else 4000
    for _ in range(n_set):
        shp = rng.choice(SHAPES)
        D = rng.randint(1, 3); P = rng.randint(1, 2)
        items = gen_index(rng, shp)
        items = [it for it in items if it[0] != 'new']
        if not index_valid(items, shp):
            continue
        ix = py_index(items)
        x = offset_utpm(algopy, D, P, shp)
        base = x.data.copy()
        sel_shape = numpy.shape(base[0, 0][ix])
        rk = rng.choice(['scalar', 'scalar', 'ndarray', 'utpm', 'utpm_bcast', 'own coefficient'])
        if rk == 'own coefficient' and D < 2:
            rk = 'ndarray'
        meta = dict(kind='setitem', shape=list(shp), D=D, P=P, index=repr(ix), rhs=rk)
        rep.count('setitem:rhs', rk)
        rep.case(('setitem', json.dumps(meta, sort_keys=True)), True, sample=meta)
        expect = base.copy()
        try:
            if rk == 'scalar':
                c = float(rng.randint(-9, 9)) / 4
                rhs = c
                for p in range(P):
                    expect[0, p][ix] = c
                    for d in range(1, D):
                        expect[d, p][ix] = 0
            elif rk == 'own coefficient':
                # the constant assigned is a plain-array VIEW of a higher coefficient block of x itself (x[ix] = x.data[d,p][ix])
                d_, p_ = rng.randint(1, D - 1), rng.randrange(P)
                rhs = x.data[d_, p_][ix]
                c = base[d_, p_][ix].copy()
                for p in range(P):
                    expect[0, p][ix] = c
                    for d in range(1, D):
                        expect[d, p][ix] = 0
            elif rk == 'ndarray':
                c = numpy.arange(int(numpy.prod(sel_shape, dtype=int)), dtype=float).reshape(sel_shape) / 8 - 1
                rhs = c
                for p in range(P):
                    expect[0, p][ix] = c
                    for d in range(1, D):
                        expect[d, p][ix] = 0
            else:
                rs = sel_shape if rk == 'utpm' else (sel_shape[1:] if len(sel_shape) >= 1 else sel_shape)
                rdata = numpy.zeros((D, P) + tuple(rs))
                rdata[...] = -numpy.arange(rdata.size).reshape(rdata.shape) - 1
                rhs = UTPM(rdata)
                for d in range(D):
                    for p in range(P):
                        expect[d, p][ix] = rdata[d, p]
            x[ix] = rhs
            if not numpy.array_equal(x.data, expect):
                rep.violation('setitem:%s' % rk, 'x[%r] = <%s> on shape %s does not match slice-wise NumPy assignment' % (ix, rk, shp),
                              dict(kind='setitem', case=meta, items=items))
        except Exception as e:
            rep.violation('setitem:%s:exception:%s' % (rk, type(e).__name__) + (':numpy-int' if any(it[0] == 'int' and it[2] for it in items) and len(items) == 1 else ''),
                          'x[%r] = <%s> on shape %s raises %r' % (ix, rk, shp, e), dict(kind='setitem', case=meta, items=items, exc=repr(e)))

    # ---------------- other shape operations against slice-wise NumPy
    check_ops(rep, algopy, rng, tier, terms, metas)

    verdicts, logs = lib.eval_bool_cases(PID, IMPORTS, DEFS, terms, per_file=250)
    bad = 0
    for m, v, t in zip(metas, verdicts, terms):
        rep.count('coq:kind', m['kind'])
        nontriv = m['kind'] != 'getitem' or m.get('offsets') != list(range(len(m.get('offsets', []))))
        rep.case((m['kind'], json.dumps(m, sort_keys=True, default=str)), nontriv, sample=m if m['kind'] != 'slice_list' else None)
        if v is None:
            bad += 1
        elif not v:
            rep.violation('model:' + m['kind'], '%s: NumPy/implementation index map differs from the Coq model Array.v' % m['kind'],
                          dict(kind='correspondence', name='corr.C13.' + m['kind'], case=m, coq_term=t[:2000]),
                          no_input=True)
    if bad or logs:
        rep.violation('corr:uneval', 'correspondence corr.C13 could not be evaluated for %d cases' % bad,
                      dict(kind='correspondence', name='corr.C13', log=logs[:3]), no_input=True)
    import r9
    r9.c13_self_view_assignment(rep, algopy, rng, tier)
    import r10
    r10.c13_fft_out_buffers(rep, algopy, rng, tier)
    import r12
    r12.c13_reduce_model(rep, algopy, rng, tier, PID)
    r12.c13_mask_model(rep, algopy, rng, tier, PID)
    return rep.finish()


def slicewise(data, f):
    D, P = data.shape[:2]
    outs = [[f(data[d, p]) for p in range(P)] for d in range(D)]
    return numpy.array(outs)


def check_ops(rep, algopy, rng, tier, terms, metas):
    UTPM = algopy.UTPM
    n = 40 if tier == 'quick' else 400

    def rnd(D, P, shp, cx=False):
        a = numpy.array([rng.randint(-20, 20) / 4 for _ in range(D * P * int(numpy.prod(shp, dtype=int)))]).reshape((D, P) + tuple(shp))
        if cx:
            a = a + 1j * numpy.array([rng.randint(-20, 20) / 4 for _ in range(a.size)]).reshape(a.shape)
        return a

    def run(name, key, data, f_impl, f_np, view=False, extra=None):
        meta = dict(kind='op', op=name, shape=list(data.shape[2:]), D=int(data.shape[0]), P=int(data.shape[1]), args=extra)
        rep.count('op', name)
        rep.case(('op', json.dumps(meta, sort_keys=True, default=str), data.tobytes().hex()[:64]), True, sample=meta)
        try:
            ref = slicewise(data, f_np)
        except Exception:
            return          # NumPy itself rejects the arguments: outside the quantifier
        try:
            x = UTPM(lib.relayout(data.copy(), LAYOUTS[rep.evaluations % len(LAYOUTS)]))     # C / Fortran / transposed coefficient arrays
            y = f_impl(x)
            yd = numpy.asarray(y.data)
        except Exception as e:
            rep.violation('op:%s:exception:%s' % (key, type(e).__name__), '%s%s on shape %s raises %r although NumPy accepts it' % (name, extra or '', data.shape[2:], e),
                          dict(kind='op', case=meta, data=data.tolist() if not numpy.iscomplexobj(data) else None, exc=repr(e)))
            return
        if numpy.iscomplexobj(ref) and not numpy.iscomplexobj(yd):
            rep.violation('op:%s:dtype' % key, '%s%s of a polynomial with complex coefficients returns %s coefficients where NumPy returns %s for every slice (imaginary parts are lost on assignment)'
                          % (name, extra or '', yd.dtype, ref.dtype), dict(kind='op', case=meta))
            return
        if yd.shape != ref.shape or not numpy.allclose(yd, ref, rtol=1e-13, atol=1e-13):
            rep.violation('op:%s' % key, '%s%s on shape %s differs from NumPy applied to every coefficient slice (result shape %s, NumPy %s)'
                          % (name, extra or '', data.shape[2:], yd.shape[2:], ref.shape[2:]),
                          dict(kind='op', case=meta, data=data.tolist() if not numpy.iscomplexobj(data) else None))
            return
        # where NumPy hands out a fresh array the result must not alias the operand either (writing into it would write into the operand)
        try:
            np_fresh = bool(numpy.size(yd)) and x.data.ndim > 2 and not numpy.shares_memory(numpy.asarray(f_np(x.data[0, 0])), x.data[0, 0])
        except Exception:
            np_fresh = False
        if np_fresh and numpy.shares_memory(numpy.asarray(y.data), x.data):
            rep.violation('op:%s:aliases-operand' % key, '%s returns an object sharing memory with its operand where NumPy returns a fresh array' % name, dict(kind='op', case=meta))
            return
        if view:
            # exactly as in NumPy: a view where NumPy returns a view of the coefficient slice (a reshape of a non-contiguous slice is a copy there too)
            np_view = bool(numpy.size(yd)) and numpy.shares_memory(f_np(x.data[0, 0]), x.data[0, 0])
            if np_view and not numpy.shares_memory(y.data, x.data):
                rep.violation('op:%s:view' % key, '%s does not return a view of its operand' % name, dict(kind='op', case=meta))

    for it in range(n):
        D = rng.randint(1, 3); P = rng.randint(1, 3)
        if it % 2 == 0:
            D = max(D, 2); P = max(P, 2)          # several coefficient slices that differ
        shp = (SHAPES + [()])[it % (len(SHAPES) + 1)]          # rank 0 as well: NumPy accepts it for all of these
        data = rnd(D, P, shp)
        nel = int(numpy.prod(shp, dtype=int))
        # reshape
        cands = [s for s in [(nel,), (1, nel), (nel, 1), (2, nel // 2) if nel % 2 == 0 else (nel,), (nel // 3, 3) if nel % 3 == 0 else (nel,)]]
        ns = rng.choice(cands)
        run('reshape', 'reshape', data, lambda x: x.reshape(ns), lambda a: a.reshape(ns), view=True, extra=repr(ns))
        run('algopy.reshape', 'reshape', data, lambda x: algopy.reshape(x, ns), lambda a: a.reshape(ns), view=True, extra=repr(ns))
        run('transpose', 'transpose', data, lambda x: x.T, lambda a: a.T, view=True)
        run('transpose()', 'transpose', data, lambda x: x.transpose(), lambda a: a.transpose(), view=True)
        # transpose of a non-contiguous view
        if len(shp) >= 2:
            run('view.T', 'transpose', data, lambda x: x[::-1].T, lambda a: a[::-1].T, view=True)
        perm = list(range(len(shp))); rng.shuffle(perm)
        n_el = nel
        offs = numpy.arange(n_el).reshape(shp).transpose(perm)
        terms.append('(tr %s %s %s %s)' % (natseq(perm), natseq(shp), natseq(offs.shape), natseq([int(v) for v in offs.reshape(-1)])))
        metas.append(dict(kind='transpose_gather', shape=list(shp), perm=perm))
        for axis in [None] + list(range(-len(shp), len(shp))):
            run('sum', 'sum', data, lambda x: algopy.sum(x, axis=axis), lambda a: numpy.sum(a, axis=axis), extra='axis=%r' % (axis,))
        run('x.sum()', 'sum', data, lambda x: x.sum(), lambda a: numpy.sum(a))
        # every repetition pattern, in particular more repetition axes than the polynomial has (new leading axes)
        for reps in [2, (2,), (1, 2), (2, 1), (2, 2), (1, 1, 2), 3, (2, 1, 1), (3, 1, 2), (2, 2, 1, 1)]:
            run('tile', 'tile', data, lambda x, reps=reps: algopy.tile(x, reps), lambda a, reps=reps: numpy.tile(a, reps), extra=repr(reps))
        run('negative', 'negative', data, lambda x: -x, lambda a: -a)
        run('zeros_like', 'zeros', data, lambda x: algopy.zeros_like(x), lambda a: numpy.zeros_like(a))
        zshape = rng.choice([(2,), (2, 3), 3])
        run('zeros', 'zeros', data, lambda x: algopy.zeros(zshape, dtype=x), lambda a: numpy.zeros(zshape), extra=repr(zshape))
        # containers built from a template with COMPLEX coefficients are complex (NumPy: zeros_like(a), zeros(shape, dtype=a.dtype)), and a
        # polynomial stored into such a container comes back unchanged
        cdata = data + 1j * data[::-1, ::-1]
        run('zeros_like', 'zeros:complex', cdata, lambda x: algopy.zeros_like(x), lambda a: numpy.zeros_like(a), extra='complex')
        run('zeros', 'zeros:complex', cdata, lambda x: algopy.zeros(zshape, dtype=x), lambda a: numpy.zeros(zshape, dtype=a.dtype), extra='complex ' + repr(zshape))
        if len(shp) >= 1:
            def fill(x):
                y = algopy.zeros(x.shape, dtype=x)
                for i_ in range(x.shape[0]):
                    y[i_] = x[i_]
                return y
            run('zeros+setitem', 'zeros:complex:fill', cdata, fill, lambda a: a.copy(), extra='complex')
        # ones: zeroth coefficient one, higher zero
        try:
            o = algopy.ones(zshape, dtype=UTPM(data.copy()))
            zs = (zshape,) if isinstance(zshape, int) else zshape
            exp = numpy.zeros((D, P) + tuple(zs)); exp[0] = 1
            rep.count('op', 'ones'); rep.case(('op', 'ones', repr(zshape), D, P), True)
            if o.data.shape != exp.shape or not numpy.array_equal(o.data, exp):
                rep.violation('op:ones', 'ones(%r, dtype=UTPM) is not the constant-one polynomial' % (zshape,), dict(kind='op', op='ones', shape=repr(zshape)))
        except Exception as e:
            rep.violation('op:ones:exception', 'ones(%r, dtype=UTPM) raises %r' % (zshape, e), dict(kind='op', op='ones', shape=repr(zshape)))
        if len(shp) == 2:
            k = rng.choice([0, 0, 1, -1, 2])
            run('triu', 'triu' + (':k' if k else ''), data, lambda x: algopy.triu(x, k), lambda a: numpy.triu(a, k), extra='k=%d' % k)
            run('tril', 'tril' + (':k' if k else ''), data, lambda x: algopy.tril(x, k), lambda a: numpy.tril(a, k), extra='k=%d' % k)
            run('trace', 'trace', data, lambda x: algopy.trace(x), lambda a: numpy.trace(a))
            run('diag', 'diag:2d' + (':nonsquare' if shp[0] != shp[1] else ''), data, lambda x: algopy.diag(x), lambda a: numpy.diag(a))
            if shp[0] == shp[1]:
                for uplo in 'FLU':
                    def np_symvec(a, uplo=uplo):
                        N = a.shape[0]
                        if uplo == 'F':
                            return numpy.array([0.5 * (a[r, c] + a[c, r]) for r in range(N) for c in range(r, N)])
                        if uplo == 'L':
                            return numpy.array([a[m, n] for n in range(N) for m in range(n, N)])
                        return numpy.array([a[n, m] for n in range(N) for m in range(n, N)])
                    run('symvec', 'symvec', data, lambda x: algopy.symvec(x, uplo), np_symvec, extra=uplo)
        if len(shp) == 1:
            run('diag', 'diag:1d', data, lambda x: algopy.diag(x), lambda a: numpy.diag(a))
            kk = rng.choice([1, -1])
            run('diag', 'diag:k', data, lambda x: algopy.diag(x, kk), lambda a: numpy.diag(a, kk), extra='k=%d' % kk)
            if shp[0] in (1, 3):
                def np_vecsym(v):
                    N = (int(numpy.sqrt(1 + 8 * v.size)) - 1) // 2
                    A = numpy.zeros((N, N)); c = 0
                    for r in range(N):
                        for col in range(r, N):
                            A[r, col] = A[col, r] = v[c]; c += 1
                    return A
                run('vecsym', 'vecsym', data, lambda x: algopy.vecsym(x), np_vecsym)
        cdata = rnd(D, P, shp, cx=True)
        run('conjugate', 'conjugate', cdata, lambda x: algopy.conjugate(x), lambda a: numpy.conjugate(a))
        run('conjugate(real data)', 'conjugate', data, lambda x: algopy.conjugate(x), lambda a: numpy.conjugate(a))       # a fresh array in NumPy for real dtypes too
        run('x.conj()', 'conjugate', data, lambda x: x.conj(), lambda a: numpy.conjugate(a))
        run('x.T.conj()', 'conjugate', data, lambda x: x.T.conj(), lambda a: numpy.conjugate(a.T))
        run('real', 'real', cdata, lambda x: algopy.real(x), lambda a: numpy.real(a))
        run('imag', 'imag', cdata, lambda x: algopy.imag(x), lambda a: numpy.imag(a))
        import algopy.fft as afft
        run('fft', 'fft', data, lambda x: afft.fft(x), lambda a: numpy.fft.fft(a))
        run('ifft', 'ifft', cdata, lambda x: afft.ifft(x), lambda a: numpy.fft.ifft(a))
        if len(shp) >= 2:
            run('fft axis=0', 'fft', data, lambda x: afft.fft(x, axis=0), lambda a: numpy.fft.fft(a, axis=0))


def replay(path):
    pl = json.load(open(path))
    # all C13 cases are cheap and deterministic in the seed: re-run the recorded tier/seed
    return main(pl.get('tier', 'quick'), pl.get('seed', 0))
