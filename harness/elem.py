"""Table of the element-wise functions of C01 (shared by C01, C10, C11, C12, C14): domain of the base
coefficient, how to call the implementation, and the Coq model term for ONE series.

Base values (exp x0, sin x0, ...) are computed here with NumPy/SciPy directly -- never through algopy --
and handed to the model as exact rationals (trusted base item ii)."""
import math
from fractions import Fraction
import numpy, scipy, scipy.special
import lib

F = Fraction


def _is_cx(v):
    return isinstance(v, (complex, numpy.complexfloating))


def qlit(v):
    """Coq literal: Qc for a real value, Q(i) (QciField.ci) for a complex one"""
    if _is_cx(v):
        return '(ci %s %s)' % (lib.qlit(lib.frac(float(v.real))), lib.qlit(lib.frac(float(v.imag))))
    return lib.qlit(v)


def qseq(vs):
    return '[:: ' + '; '.join(qlit(v) for v in vs) + ']' if len(vs) else '[::]'


def _f(v):
    """exact value of a NumPy/SciPy result: Fraction for a real, the complex number itself (both parts dyadic) for a complex one"""
    if _is_cx(v):
        return complex(v)
    return lib.frac(float(v))


# functions whose Taylor propagation is exercised at COMPLEX base points as well (NumPy evaluates them there; away from branch cuts)
COMPLEX_OK = ('exp', 'expm1', 'log', 'log1p', 'sqrt', 'sin', 'cos', 'tan', 'arcsin', 'arccos', 'arctan', 'sinh', 'cosh', 'tanh',
              'reciprocal', 'square', 'negative', 'pow_nat', 'pow_negint')


def gen_x0_complex(rng, fn):
    """a base point off the real axis, inside the domain of analyticity (branch cuts lie on the axes)"""
    re = F(rng.choice([-2, -1.5, -1.25, -0.75, -0.25, 0.25, 0.5, 1.25, 1.5, 2]))
    im = F(rng.choice([-1.25, -1, -0.5, 0.5, 1, 1.25]))
    return complex(float(re), float(im))


class Fn:
    def __init__(self, name, dom, model, call='algopy', params=None, routes=('algopy', 'numpy', 'method'), nargs=1):
        self.name, self.dom, self.model, self.call, self.params, self.routes, self.nargs = name, dom, model, call, params, routes, nargs


# domain = list of (lo, hi) intervals (Fractions) for the base coefficient x0
R = [(F(-2), F(2))]
POS = [(F(1, 4), F(4))]
NZ = [(F(-4), F(-1, 4)), (F(1, 4), F(4))]


def m_exp(xs, x0, prm):
    return '(expS %s %s)' % (qseq(xs), qlit(_f(numpy.exp(x0))))


def m_expm1(xs, x0, prm):
    return '(expm1S %s %s %s)' % (qseq(xs), qlit(_f(numpy.exp(x0))), qlit(_f(numpy.expm1(x0))))


def m_log(xs, x0, prm):
    return '(logS %s %s)' % (qseq(xs), qlit(_f(numpy.log(x0))))


def m_log1p(xs, x0, prm):
    return '(log1pS %s %s)' % (qseq(xs), qlit(_f(numpy.log1p(x0))))


def m_sqrt(xs, x0, prm):
    return '(sqrtS %s %s)' % (qseq(xs), qlit(_f(numpy.sqrt(x0))))


def m_sin(xs, x0, prm):
    return '(sincosS %s %s %s).1' % (qseq(xs), qlit(_f(numpy.sin(x0))), qlit(_f(numpy.cos(x0))))


def m_cos(xs, x0, prm):
    return '(sincosS %s %s %s).2' % (qseq(xs), qlit(_f(numpy.sin(x0))), qlit(_f(numpy.cos(x0))))


def m_tan(xs, x0, prm):
    c = numpy.cos(x0)
    return '(tansec2S %s %s %s).1' % (qseq(xs), qlit(_f(numpy.tan(x0))), qlit(_f(1. / (c * c))))


def m_arcsin(xs, x0, prm):
    y0 = numpy.arcsin(x0)
    return '(arcsinS %s %s %s).1' % (qseq(xs), qlit(_f(y0)), qlit(_f(numpy.cos(y0))))


def m_arccos(xs, x0, prm):
    y0 = numpy.arccos(x0)
    return '(arcsinS %s %s %s).1' % (qseq(xs), qlit(_f(y0)), qlit(_f(-numpy.sin(y0))))


def m_arctan(xs, x0, prm):
    return '(arctanS %s %s).1' % (qseq(xs), qlit(_f(numpy.arctan(x0))))


def m_sinh(xs, x0, prm):
    return '(sinhcoshS %s %s %s).1' % (qseq(xs), qlit(_f(numpy.sinh(x0))), qlit(_f(numpy.cosh(x0))))


def m_cosh(xs, x0, prm):
    return '(sinhcoshS %s %s %s).2' % (qseq(xs), qlit(_f(numpy.sinh(x0))), qlit(_f(numpy.cosh(x0))))


def m_tanh(xs, x0, prm):
    return '(tanhsech2S %s %s).1' % (qseq(xs), qlit(_f(numpy.tanh(x0))))


def m_recip(xs, x0, prm):
    return '(recipS %s)' % qseq(xs)


def m_square(xs, x0, prm):
    return '(squareS %s)' % qseq(xs)


def m_neg(xs, x0, prm):
    return '(negS %s)' % qseq(xs)


TWO_OVER_SQRT_PI = 2. / math.sqrt(math.pi)


def m_erf(xs, x0, prm):
    return '(erfS %s %s %s %s)' % (qseq(xs), qlit(_f(TWO_OVER_SQRT_PI)), qlit(_f(numpy.exp(-(x0 * x0)))), qlit(_f(scipy.special.erf(x0))))


def m_erfi(xs, x0, prm):
    return '(erfiS %s %s %s %s)' % (qseq(xs), qlit(_f(TWO_OVER_SQRT_PI)), qlit(_f(numpy.exp(x0 * x0))), qlit(_f(scipy.special.erfi(x0))))


def m_dawsn(xs, x0, prm):
    return '(dawsnS %s %s)' % (qseq(xs), qlit(_f(scipy.special.dawsn(x0))))


def m_logit(xs, x0, prm):
    return '(logitS %s %s)' % (qseq(xs), qlit(_f(scipy.special.logit(x0))))


def m_expit(xs, x0, prm):
    return '(expitS %s %s %s)' % (qseq(xs), qlit(_f(numpy.exp(x0))), qlit(_f(scipy.special.expit(x0))))


def _slow(xs, derivs):
    return '(slowgenS %s %s)' % (qseq(xs), qseq([_f(v) for v in derivs]))


def m_gammaln(xs, x0, prm):
    D = len(xs)
    return _slow(xs, [scipy.special.gammaln(x0)] + [scipy.special.polygamma(n - 1, x0) for n in range(1, D)])


def m_psi(xs, x0, prm):
    D = len(xs)
    return _slow(xs, [scipy.special.polygamma(n, x0) for n in range(D)])


def m_polygamma(xs, x0, prm):
    D = len(xs)
    m = prm['m']
    return _slow(xs, [scipy.special.polygamma(m + n, x0) for n in range(D)])


def m_hyperu(xs, x0, prm):
    D = len(xs)
    a, b = prm['a'], prm['b']
    return _slow(xs, [(-1) ** n * scipy.special.poch(a, n) * scipy.special.hyperu(a + n, b + n, x0) for n in range(D)])


def m_abs(xs, x0, prm):
    return '(absS %s %s %s)' % (qseq(xs), qlit(_f(numpy.sign(x0))), qlit(_f(abs(x0))))


def m_sign(xs, x0, prm):
    return '(signS %s %s)' % (qseq(xs), qlit(_f(numpy.sign(x0))))


def m_powr(xs, x0, prm):
    r = prm['r']
    if _is_cx(x0):
        return '(powS %s %s %s)' % (qseq(xs), qlit(complex(r)), qlit(_f(x0 ** r)))
    return '(powS %s %s %s)' % (qseq(xs), qlit(_f(r)), qlit(_f(float(x0) ** r)))


def m_pown(xs, x0, prm):
    return '(pownatS %s %d)' % (qseq(xs), prm['n'])


def m_clip(xs, x0, prm):
    lo, hi = prm['lo'], prm['hi']
    inside = (x0 <= hi) and (x0 >= lo)
    return '(clipS %s %s %s)' % (qseq(xs), qlit(_f(numpy.clip(x0, lo, hi))), 'true' if inside else 'false')


FUNCS = {}


def reg(fn):
    FUNCS[fn.name] = fn


for nm, dom, mod in [
        ('exp', R, m_exp), ('expm1', R, m_expm1), ('log', POS, m_log), ('log1p', [(F(-3, 4), F(3))], m_log1p),
        ('sqrt', POS, m_sqrt), ('sin', R, m_sin), ('cos', R, m_cos), ('tan', [(F(-5, 4), F(5, 4))], m_tan),
        ('arcsin', [(F(-3, 4), F(3, 4))], m_arcsin), ('arccos', [(F(-3, 4), F(3, 4))], m_arccos), ('arctan', R, m_arctan),
        ('sinh', R, m_sinh), ('cosh', R, m_cosh), ('tanh', R, m_tanh),
        ('reciprocal', NZ, m_recip), ('square', R, m_square), ('negative', R, m_neg),
        ('absolute', NZ, m_abs)]:
    reg(Fn(nm, dom, mod))
# numpy.sign on an object array uses comparisons, not a .sign method: the library does not overload that route
reg(Fn('sign', NZ, m_sign, routes=('algopy', 'method')))
for nm, dom, mod in [('erf', R, m_erf), ('erfi', [(F(-3, 2), F(3, 2))], m_erfi), ('dawsn', R, m_dawsn),
                     ('logit', [(F(1, 8), F(7, 8))], m_logit), ('expit', R, m_expit),
                     ('gammaln', POS, m_gammaln), ('psi', POS, m_psi)]:
    reg(Fn(nm, dom, mod, call='special', routes=('special', 'classmethod')))
reg(Fn('polygamma', POS, m_polygamma, call='special', routes=('special', 'classmethod'),
       params=lambda rng: dict(m=rng.randint(0, 3))))
reg(Fn('hyperu', [(F(1, 2), F(4))], m_hyperu, call='special', routes=('special', 'classmethod'),
       params=lambda rng: dict(a=rng.choice([0.5, 1.0, 1.5, 2.25]), b=rng.choice([0.5, 1.5, 2.0, 3.25]))))
reg(Fn('pow_real', POS, m_powr, call='pow', routes=('op', 'algopy'),
       params=lambda rng: dict(r=rng.choice([0.5, -0.5, 1.5, 2.5, -1.25, 3.75, -2.0, 0.25, 2.0, 3.0]))))
reg(Fn('pow_negint', NZ, m_powr, call='pow', routes=('op', 'algopy'),
       params=lambda rng: dict(r=rng.choice([-1, -2, -3]))))
reg(Fn('pow_nat', [(F(-3), F(3))], m_pown, call='pow', routes=('op', 'algopy'),
       params=lambda rng: dict(n=rng.choice([0, 1, 2, 3, 4, 5, 6, 7, 8]))))
reg(Fn('botched_clip', [(F(-3), F(3))], m_clip, call='special', routes=('special', 'classmethod'),
       params=lambda rng: dict(lo=rng.choice([-1.125, -0.625, 0.125]), hi=rng.choice([0.375, 0.875, 1.625]))))


def call_impl(algopy, fn, route, x, prm):
    """returns the implementation's result object for function fn on UTPM x through the given route"""
    UTPM = algopy.UTPM
    n = fn.name
    if fn.call == 'pow':
        r = prm['n'] if 'n' in prm else prm['r']
        if route == 'op':
            return x ** r
        return algopy.pow(x, r)
    if fn.call == 'special':
        import algopy.special as sp
        f = getattr(sp, n) if route == 'special' else getattr(UTPM, n)
        if n == 'polygamma':
            return f(prm['m'], x)
        if n == 'hyperu':
            return f(prm['a'], prm['b'], x)
        if n == 'botched_clip':
            return f(prm['lo'], prm['hi'], x)
        return f(x)
    if route == 'algopy':
        return getattr(algopy, n)(x)
    if route == 'numpy':
        return getattr(numpy, n)(x)
    if route == 'method':
        return getattr(UTPM, n)(x)
    raise ValueError(route)


def result_data(algopy, y, shape_dp):
    """coefficient array of a result; numpy ufunc dispatch returns an object array of scalar UTPMs"""
    UTPM = algopy.UTPM
    if isinstance(y, UTPM):
        return numpy.asarray(y.data)
    if isinstance(y, numpy.ndarray) and y.dtype == object:
        flat = y.reshape(-1)
        D, P = shape_dp
        out = numpy.zeros((D, P) + y.shape, dtype=numpy.result_type(*[e.data.dtype for e in flat]) if len(flat) else float)
        of = out.reshape((D, P, -1))
        for i, e in enumerate(flat):
            if not isinstance(e, UTPM) or e.data.shape != (D, P):
                raise TypeError('element %d of the ufunc result is %r' % (i, type(e)))
            of[:, :, i] = e.data
        return out
    raise TypeError('result is %r, not a UTPM' % type(y))


def gen_x0(rng, fn, prm):
    lo, hi = rng.choice(fn.dom)
    den = 16
    while True:
        v = F(rng.randint(int(lo * den), int(hi * den)), den)
        if lo <= v <= hi:
            if fn.name == 'botched_clip' and (v == F(prm['lo']) or v == F(prm['hi'])):
                continue
            return v


PATTERNS = ('dense', 'dense', 'zeros', 'single', 'alternating', 'sparse')


def gen_series(rng, fn, prm, D, pattern):
    xs = [gen_x0(rng, fn, prm)]
    k = rng.randint(1, max(1, D - 1))
    for d in range(1, D):
        if pattern == 'dense':
            c = F(rng.randint(-16, 16), 8)
        elif pattern == 'zeros':
            c = F(0)
        elif pattern == 'single':
            c = F(rng.choice([-12, -4, 3, 8, 13]), 8) if d == k else F(0)
        elif pattern == 'alternating':
            c = F((-1) ** d * rng.randint(1, 12), 8)
        else:
            c = F(rng.randint(-16, 16), 8) if rng.random() < 0.4 else F(0)
        xs.append(c)
    return xs


SHAPES = [(), (1,), (3,), (2, 2), (1, 2, 1), (2, 1)]


def gen_case(rng, fn, Dmax=6, Pmax=3):
    prm = fn.params(rng) if fn.params else {}
    D = rng.choice([1, 2, 3] + list(range(2, Dmax + 1)) * 2)
    P = rng.randint(1, Pmax)
    shape = rng.choice(SHAPES)
    pattern = rng.choice(PATTERNS)
    n = int(numpy.prod(shape, dtype=int))
    data = numpy.zeros((D, P) + shape)
    flat = data.reshape((D, P, n))
    for p in range(P):
        for e in range(n):
            xs = gen_series(rng, fn, prm, D, pattern)
            for d in range(D):
                flat[d, p, e] = float(xs[d])
    route = rng.choice(fn.routes)
    return dict(fn=fn.name, prm=prm, D=D, P=P, shape=list(shape), pattern=pattern, route=route, data=data.tolist())


def series_of(arr, p, e):
    D, P = arr.shape[:2]
    fl = arr.reshape((D, P, -1))
    return [fl[d, p, e] for d in range(D)]


def growth(fn, D):
    """a-priori bound on the magnitude amplification of order-D coefficients (distance to singularity >= 1/4)"""
    if fn.name in ('log', 'log1p', 'sqrt', 'reciprocal', 'pow_real', 'pow_negint', 'logit', 'gammaln', 'psi', 'polygamma', 'hyperu',
                   'arcsin', 'arccos', 'tan'):
        return 4 ** D
    return 2 ** D
