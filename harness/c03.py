"""C03 -- reverse mode agrees with forward mode at every Taylor order.
Theorems: Props/C03.v (TracerSpec.v: for every tape with buffers over every commutative ring, the reverse sweep is the transpose
of the forward tangent sweep).
Checks on the implementation:
  (a) adjoint identity <xbar(t), v(t)> = <ybar(t), F'(x(t)) v(t)> mod t^D for generated programs, F'(x)v obtained from forward
      propagation alone (coefficients D..2D-1 of the forward sweeps on x + t^D v and on x, subtracted), every direction, evaluation point != recording point;
  (b) rational scalar programs with buffers: every xbar coefficient against the Coq model Tracer.v (vm_compute over Qc);
  (c) documented unsupported operations raise instead of returning an adjoint."""
import json
from fractions import Fraction
import numpy
import lib, progs, c05
import tracer_model as tm
from lib import Report, qlit, qseq, natseq

PID = 'C03'
F = Fraction


def tmul(a, b, D):
    """truncated product of coefficient arrays along axis 0"""
    out = numpy.zeros_like(a[:D] * b[:D])
    for d in range(D):
        for c in range(d + 1):
            out[d] += a[c] * b[d - c]
    return out


def adjoint_sides(ap, prog, cg, fx, fys, D, P, x_data, v, ybars):
    """(lhs, rhs, xbar): <xbar, v> from the reverse sweep and <ybar, F'(x) v> from forward propagation alone"""
    N = prog['N']
    cg.pushforward([ap.UTPM(x_data.copy())])
    cg.pullback([ap.UTPM(yb.copy()) for yb in ybars])
    xbar = numpy.asarray(fx.xbar.data).copy()
    # forward only: y(x + t^D v) - y(x) = t^D F'(x(t)) v(t) + O(t^2D), both evaluated with 2D coefficients
    ext = numpy.concatenate([x_data, v], axis=0)
    ext0 = numpy.concatenate([x_data, numpy.zeros_like(v)], axis=0)
    yext = progs.run(prog, ap.UTPM(ext.copy()), ap)
    yext0 = progs.run(prog, ap.UTPM(ext0.copy()), ap)
    lhs = numpy.zeros((D, P)); rhs = numpy.zeros((D, P))
    for i in range(N):
        lhs += tmul(xbar[:, :, i], v[:, :, i], D)
    for yb, ye, ye0 in zip(ybars, yext, yext0):
        w = numpy.asarray(ye.data)[D:2 * D] - numpy.asarray(ye0.data)[D:2 * D]
        rhs += tmul(yb, w, D)
    return lhs, rhs, xbar


def adjoint_check(ap, prog, cg, fx, fys, rng, D, P, x_data):
    """returns None if the identity holds, ('skip', ..) if float64 cannot decide it at this point, else a description; x_data: (D,P,N)"""
    N = prog['N']
    v = progs.rand_utpm_data(rng, D, P, N)
    ybars = [progs.rand_utpm_data(rng, D, P, 1)[:, :, 0] for _ in fys]
    lhs, rhs, xbar = adjoint_sides(ap, prog, cg, fx, fys, D, P, x_data, v, ybars)
    scale = 1 + numpy.abs(lhs) + numpy.abs(rhs)
    dev = numpy.abs(lhs - rhs) / scale
    if not numpy.all(numpy.isfinite(dev)):
        return 'non-finite adjoint', dict(v=v.tolist(), ybar=[y.tolist() for y in ybars], xbar=xbar.tolist())
    if dev.max() > 1e-8:
        d, p = numpy.unravel_index(int(numpy.argmax(dev)), dev.shape)
        # conditioning: the same two quantities at a point perturbed by a relative 1e-13 (3 draws).  If they move by more than 1% of
        # the disagreement, float64 rounding (1e-16) explains it up to the usual factor and the case decides nothing.
        prng = numpy.random.RandomState(12345)
        moved = 0.0
        for _ in range(3):
            xp = x_data * (1 + 1e-13 * prng.uniform(-1, 1, size=x_data.shape))
            try:
                l2, r2, _xb = adjoint_sides(ap, prog, cg, fx, fys, D, P, xp, v, ybars)
                moved = max(moved, abs(l2[d, p] - lhs[d, p]), abs(r2[d, p] - rhs[d, p]))
            except Exception:
                pass
        if not numpy.isfinite(moved) or abs(lhs[d, p] - rhs[d, p]) <= 100 * moved:
            return 'skip', float(moved)
        return ('<xbar,v> = %.10g but <ybar, F\'v> = %.10g at order %d, direction %d' % (lhs[d, p], rhs[d, p], d, p),
                dict(v=v.tolist(), ybar=[y.tolist() for y in ybars], xbar=xbar.tolist()))
    return None


def main(tier, seed):
    ap = lib.import_algopy()
    rep = Report(PID, tier, seed)
    rep.rule = ('generated straight-line programs over the traced API (arithmetic with constants on either side and broadcasting, elementary and '
                'special functions, powers, views, buffers with in-place writes and re-reads, reshape/transpose, sum with axes, dot/outer, '
                'inv/solve/det/logdet/trace), recorded at one point and evaluated at another; curves D in 1..4, P in 1..3, non-symmetric seeds '
                'non-zero at all orders; one evaluation = one (program, curve, seed, direction polynomial); non-trivial = D>=2; distinct by content')
    rep.assumptions = ['pullbacks of qr/cholesky/lu/eigh/svd/eig/fft are not in the tape theorem; they are covered by the adjoint-identity predicate only when the generator emits them',
                       'tolerance 1e-8 relative on the float64 adjoint identity; 2^-30 between exact model and implementation']
    rep.theorems()
    rng = lib.rng_for(seed, PID)
    n_prog = 90 if tier == 'quick' else 2000
    terms, metas = [], []
    kernel = progs.kernel_programs(rng, ap, reps=2 if tier == 'quick' else 10)
    for it in range(n_prog + len(kernel)):
        rational = it % 3 == 0 and it < n_prog
        if it < n_prog:
            prog = progs.gen_prog(rng, ap, rational=rational, nout=rng.choice([1, 1, 2]), focus='linalg' if it % 3 == 1 else None)
        else:
            # every pullback kernel at D >= 2, several directions, regardless of what the random composition picked
            kname, prog = kernel[it - n_prog]
            rep.count('kernel program', kname)
        N = prog['N']
        D = rng.randint(1, 4 if not rational else 3); P = rng.randint(1, 3 if not rational else 2)
        if it >= n_prog:
            D = rng.randint(2, 4); P = rng.randint(2, 3)
        text = progs.to_text(prog)
        x_rec = progs.rand_utpm_data(rng, D, P, N)
        x_new = progs.rand_utpm_data(rng, D, P, N)
        meta = dict(program=text, N=N, D=D, P=P, buffers=progs.has_buffer(prog), rational=rational)
        rep.count('D', D); rep.count('P', P); rep.count('buffers', meta['buffers']); rep.count('rational', rational)
        rep.case(('adjoint', text, x_rec.tobytes().hex(), x_new.tobytes().hex()), D >= 2, sample=dict(check='adjoint identity', **meta))
        try:
            cg, fx, fys = c05.record(ap, prog, ap.UTPM(x_rec.copy()))
        except Exception as e:
            rep.violation('record:exception', 'recording raises %r' % (e,), dict(kind='record', prog=prog, case=meta, exc=repr(e)))
            continue
        try:
            why = adjoint_check(ap, prog, cg, fx, fys, rng, D, P, x_new)
        except Exception as e:
            rep.violation('pullback:exception:%s' % type(e).__name__, 'pushforward/pullback raises: %s' % str(e)[:300],
                          dict(kind='adjoint', prog=prog, case=meta, x_rec=x_rec.tolist(), x=x_new.tolist(), exc=repr(e)[:1500]))
            continue
        if why is not None and why[0] == 'skip':
            rep.count('ill-conditioned evaluation point (a 1e-13 relative perturbation moves both sides by > 1% of their difference): undecided', True)
            continue
        if why is not None:
            rep.violation('adjoint' + (':buffers' if meta['buffers'] else ''), 'reverse sweep violates the adjoint identity: %s' % why[0],
                          dict(kind='adjoint', prog=prog, case=meta, x_rec=x_rec.tolist(), x=x_new.tolist(), **why[1]))
            continue
        # (b) model comparison for rational programs
        if rational and tm.in_model(prog):
            outs = [f.ID for f in fys]
            ybars = [progs.rand_utpm_data(rng, D, P, 1)[:, :, 0] for _ in fys]
            cg.pushforward([ap.UTPM(x_new.copy())])
            cg.pullback([ap.UTPM(yb.copy()) for yb in ybars])
            xb = numpy.asarray(fx.xbar.data)
            for p in range(P):
                yl = '[:: ' + '; '.join(qseq([lib.frac(v) for v in yb[:, p]]) for yb in ybars) + ']'
                terms.append('(sers_close %s (T_grad %d (T_record %s).1 %s %s %s) %s)'
                             % (qlit(F(1, 2 ** 30)), D, tm.prog_lit(prog, D), natseq(outs), tm.series_list(x_new[:, p, :]), yl, tm.series_list(xb[:, p, :])))
                metas.append(dict(check='model xbar', program=text, D=D, direction=p, buffers=meta['buffers'], prog=prog,
                                  x_rec=x_rec.tolist(), x=x_new.tolist(), ybar=[y.tolist() for y in ybars], xbar=xb.tolist()))
    verdicts, logs = lib.eval_bool_cases(PID, tm.IMPORTS, tm.DEFS, terms, per_file=30)
    bad = 0
    for m, v, t in zip(metas, verdicts, terms):
        rep.count('model:buffers', m['buffers'])
        rep.case(('model', m['program'], json.dumps(m['x']), json.dumps(m['ybar']), m['direction']), m['D'] >= 2,
                 sample={k: m[k] for k in ('check', 'program', 'D', 'direction', 'buffers')})
        if v is None:
            bad += 1
        elif not v:
            rep.violation('model:xbar' + (':buffers' if m['buffers'] else ''), 'xbar of the reverse sweep differs from the proved model (direction %d)' % m['direction'],
                          dict(kind='model', case={k: m[k] for k in m if k != 'prog'}, prog=m['prog'], coq_term=t[:6000]))
    if bad or logs:
        rep.violation('corr:uneval', 'correspondence corr.C03 could not be evaluated for %d cases' % bad, dict(kind='correspondence', name='corr.C03', log=logs[:3]), no_input=True)

    # (c) documented unsupported operations raise
    for name, f in [('scalar ** Function', lambda fx: 2.0 ** fx),
                    ('pullback of Function ** UTPM-valued Function', None)]:
        rep.count('unsupported', name)
        rep.case(('unsupported', name), True, sample=dict(check='unsupported raises', op=name))
        try:
            cg = ap.CGraph(); fx = ap.Function(ap.UTPM(numpy.array([[[1.5, 2.0]], [[1.0, 0.5]]])))
            if f is not None:
                try:
                    f(fx); raised = False
                except NotImplementedError:
                    raised = True
            else:
                fy = fx[0] ** fx[1]
                cg.trace_off(); cg.independentFunctionList = [fx]; cg.dependentFunctionList = [fy]
                try:
                    cg.pullback([ap.UTPM(numpy.array([[1.0], [0.5]]))]); raised = False
                except Exception:
                    raised = True
            if not raised:
                rep.violation('unsupported:' + name, 'documented unsupported operation (%s) returned an adjoint instead of raising' % name, dict(kind='unsupported', op=name))
        except Exception as e:
            rep.notes.append('unsupported-op probe %s: %r' % (name, e))
    matrix_rules_section(rep, ap, rng, tier)
    import r11
    r11.c03_factorization_rules(rep, ap, rng, tier, PID)
    import r10
    r10.c03_eigh_mixed_ties(rep, ap, rng, tier)
    import r12
    r12.c03_reduce_rules(rep, ap, rng, tier, PID)
    r12.c03_trace_rule(rep, ap, rng, tier, PID)
    r12.c03_view_rules(rep, ap, rng, tier, PID)
    r12.c03_broadcast_rules(rep, ap, rng, tier, PID)
    return rep.finish()


def matrix_rules_section(rep, ap, rng, tier):
    """the array-level reverse rules called directly (UTPM.pb_dot / pb_inv / pb_solve / pb_trace) against the executable rules of
    MatPullbackExec.v (proved to be the transposes of the differentials, Props/C03.v), exactly evaluated over Qc"""
    import c07
    from fractions import Fraction as F
    U = ap.UTPM
    terms, metas = [], []
    tol = F(1, 2 ** 24)
    for it in range(10 if tier == 'quick' else 120):
        D = rng.randint(1, 4); P = rng.randint(1, 2)
        n, m, k = rng.randint(1, 3), rng.randint(1, 3), rng.randint(1, 3)
        mk = lambda *shp: c07.mat_utpm(rng, D, P, *shp)
        lit = c07.serlit
        try:
            # ---- dot
            x, y, zb = mk(n, m), mk(m, k), mk(n, k)
            z = U.dot(U(x.copy()), U(y.copy()))
            xb, yb = U.pb_dot(U(zb.copy()), U(x.copy()), U(y.copy()), z)
            for p in range(P):
                terms.append('(mxs_close %s %d %d (pb_dotU_x %d %d %d %s %s) %s && mxs_close %s %d %d (pb_dotU_y %d %d %d %s %s) %s)' % (
                    lib.qlit(tol), n, m, n, m, k, lit(zb, p), lit(y, p), lit(numpy.asarray(xb.data), p),
                    lib.qlit(tol), m, k, n, m, k, lit(x, p), lit(zb, p), lit(numpy.asarray(yb.data), p)))
                metas.append(dict(rule='pb_dot', n=n, m=m, k=k, D=D, direction=p))
            # ---- inv
            bases = [c07.base_matrix(rng, n) for _ in range(P)]
            A = c07.mat_utpm(rng, D, P, n, n, base=lambda p_: bases[p_])
            Yb = mk(n, n)
            Y = U.inv(U(A.copy()))
            Ab = U.pb_inv(U(Yb.copy()), U(A.copy()), Y)
            sc = F(1 + float(numpy.max(numpy.abs(Y.data)))) ** 2
            for p in range(P):
                terms.append('(mxs_close %s %d %d (pb_invU %d %s %s) %s)' % (lib.qlit(tol * sc), n, n, n, lit(Yb, p), lit(numpy.asarray(Y.data), p), lit(numpy.asarray(Ab.data), p)))
                metas.append(dict(rule='pb_inv', n=n, D=D, direction=p))
            # ---- solve
            B = mk(n, k); Xb = mk(n, k)
            X = U.solve(U(A.copy()), U(B.copy()))
            Abar, Bbar = U.pb_solve(U(Xb.copy()), U(A.copy()), U(B.copy()), X)
            for p in range(P):
                T = '(pb_solveU_T %d %d %s %s %s)' % (n, k, lit(A, p), c07.mxlit(numpy.linalg.inv(bases[p].T)), lit(Xb, p))
                terms.append('(mxs_close %s %d %d (pb_solveU_A %d %d %s %s) %s && mxs_close %s %d %d (pb_solveU_x %d %d %s) %s)' % (
                    lib.qlit(tol * sc), n, n, n, k, T, lit(numpy.asarray(X.data), p), lit(numpy.asarray(Abar.data), p),
                    lib.qlit(tol * sc), n, k, n, k, T, lit(numpy.asarray(Bbar.data), p)))
                metas.append(dict(rule='pb_solve', n=n, k=k, D=D, direction=p))
        except Exception as e:
            rep.violation('matrix-rule:exception', 'direct call of a matrix pullback rule raises %r' % (e,), dict(kind='matrix-rule', exc=repr(e)))
    verdicts, logs = lib.eval_bool_cases(PID + 'm', 'QcField Sums Series Matrix MatPullbackExec', c07.DEFS, terms, per_file=20)
    bad = 0
    for mt, vd, t in zip(metas, verdicts, terms):
        rep.count('matrix rule', mt['rule'])
        rep.case(('matrix-rule', t[:400]), mt['D'] >= 2, sample=mt)
        if vd is None:
            bad += 1
        elif not vd:
            rep.violation('matrix-rule:' + mt['rule'], '%s: the adjoint the implementation returns differs from the proved executable rule (MatPullbackExec.v)' % mt['rule'],
                          dict(kind='matrix-rule', case=mt, coq_term=t[:4000]))
    if bad or logs:
        rep.violation('corr:uneval:matrix-rules', 'correspondence corr.C03 (matrix rules) could not be evaluated for %d cases' % bad,
                      dict(kind='correspondence', name='corr.C03.matrix-rules', log=logs[:3]), no_input=True)


def replay(path):
    pl = json.load(open(path))
    return main(pl.get('tier', 'quick'), pl.get('seed', 0))
