"""C16 -- closed-form n-th derivatives are the true derivatives.
Theorems: Props/C16.v (NthDeriv.v over Coq's reals with Coquelicot: order n+1 is the derivative of order n, order 0 is the function,
for 16 closed forms, all n, all points of the domain).
Correspondence: the R-valued model is evaluated INSIDE Coq by the certified interval arithmetic of coq-interval at the very points
where the implementation is run: |g_f n x - implementation| <= tol is proved per case.  Model-free predicate for every exported
function (also those without a Coq model: arcsin, arccos, arctan, arcsinh, arccosh, gammaln, psi, polygamma, hyperu, and
the piecewise ones): mpmath's numerical differentiation at 50 digits (run in the separate python3-vt interpreter)."""
import json, subprocess, re, os, math
from fractions import Fraction
import numpy
import lib
from lib import Report

PID = 'C16'
F = Fraction

# function -> (domain intervals, has a Coq model, extra parameter generator)
ALL = [(F(-2), F(2))]; POS = [(F(1, 4), F(4))]; GTM1 = [(F(-3, 4), F(3))]; ABS1 = [(F(-3, 4), F(3, 4))]; GT1 = [(F(5, 4), F(4))]
NZ = [(F(-4), F(-1, 4)), (F(1, 4), F(4))]
FUNCS = {
    'exp': (ALL, True), 'exp2': (ALL, True), 'expm1': (ALL, True), 'log': (POS, True), 'log2': (POS, True), 'log10': (POS, True),
    'log1p': (GTM1, True), 'sqrt': (POS, True), 'square': (ALL, True), 'negative': (ALL, True), 'reciprocal': (NZ, True),
    'sin': (ALL, True), 'cos': (ALL, True), 'sinh': (ALL, True), 'cosh': (ALL, True), 'arctanh': (ABS1, True),
    'arcsin': (ABS1, False), 'arccos': (ABS1, False), 'arctan': (ALL, False), 'arcsinh': (ALL, False), 'arccosh': (GT1, False),
    'erf': (ALL, True), 'erfi': ([(F(-3, 2), F(3, 2))], True), 'gammaln': (POS, False), 'psi': (POS, False),
    'polygamma': (POS, False), 'hyperu': ([(F(1, 2), F(4))], False),
}
# the declared (open) domains themselves, for the special points 0, +-1/2, +-1, 2 that a random grid point rarely hits
TRUE_DOM = {id(ALL): lambda x: True, id(POS): lambda x: x > 0, id(GTM1): lambda x: x > -1, id(ABS1): lambda x: abs(x) < 1,
            id(GT1): lambda x: x > 1, id(NZ): lambda x: x != 0}
SPECIAL = [F(0), F(1), F(-1), F(1, 2), F(-1, 2), F(2)]
UNFOLD = 'unfold g_exp, g_exp2, g_expm1, g_log2, g_log10, g_log, g_log1p, g_sqrt, g_square, g_negative, g_reciprocal, g_sin, g_cos, g_sinh, g_cosh, g_arctanh, g_erf, g_erfi, erf_poly, erf_term, msign, ln2; cbn'


def rlit(fr):
    fr = Fraction(fr)
    if fr.denominator == 1:
        return '(%d)' % fr.numerator
    return '(%d / %d)' % (fr.numerator, fr.denominator)


def main(tier, seed):
    ap = lib.import_algopy()
    import algopy.nthderiv as nd
    rep = Report(PID, tier, seed)
    rep.rule = ('every exported closed form x orders n in 0..7 (thorough 0..10) x points of the declared domain on a rational grid away from '
                'singularities x parameters (polygamma m, hyperu a,b); functions with a Coq model: certified interval evaluation of the model at '
                'that point against the implementation; all functions: mpmath numerical differentiation at 50 digits; piecewise constant/linear '
                'functions away from their kinks; non-trivial = n>=1; distinct by (function, parameters, n, x)')
    rep.assumptions = ['the axioms of the standard library real numbers (ClassicalDedekindReals.sig_forall_dec, sig_not_dec, functional_extensionality_dep) and what Coquelicot/Interval add',
                       'gammaln/psi/polygamma/hyperu/arcsin/arccos/arctan/arcsinh/arccosh (and order 0 of erf/erfi, defined as the integral) have no evaluable Coq model: decided against mpmath only',
                       'tolerances: 1e-9 relative (interval check), 1e-7 relative against numerical differentiation']
    rep.theorems()
    rng = lib.rng_for(seed, PID)
    nmax = 7 if tier == 'quick' else 10
    per = 6 if tier == 'quick' else 40
    cases = []
    for name, (dom, has_model) in sorted(FUNCS.items()):
        for _ in range(per):
            lo, hi = rng.choice(dom)
            x = F(rng.randint(int(lo * 8), int(hi * 8)), 8)
            if name == 'reciprocal' and x == 0:
                continue
            n = rng.randint(0, nmax)
            prm = []
            if name == 'polygamma':
                prm = [rng.randint(0, 3)]
            if name == 'hyperu':
                prm = [rng.choice([0.5, 1.0, 1.5, 2.25, -0.5, -1.5, -2.5, 3.2]), rng.choice([0.5, 1.5, 2.0, 3.25, 0.3])]
            cases.append((name, prm, x, n, has_model))
        # special points of the domain, every order
        inside = TRUE_DOM.get(id(dom), (lambda x: x > 0) if name == 'hyperu' else (lambda x: True))
        for x in SPECIAL:
            if not inside(x):
                continue
            for n in (range(nmax + 1) if tier != 'quick' else [0, 1, 2, 3, rng.randint(4, nmax)]):
                prm = []
                if name == 'polygamma':
                    prm = [rng.randint(0, 3)]
                if name == 'hyperu':
                    prm = [rng.choice([0.5, 1.0, 1.5, 2.25, -0.5, -1.5, -2.5, 3.2]), rng.choice([0.5, 1.5, 2.0, 3.25, 0.3])]
                rep.count('special point', str(x))
                cases.append((name, prm, x, n, has_model))
    # far tails of unbounded domains (closed forms rewritten "for accuracy" in a tail; sign conventions of inverse functions on the
    # negative axis): decided against mpmath with a RELATIVE tolerance, no interval goal
    FAR = {'arctan': [2500, -2500, 20000, -20000], 'arcsinh': [2500, -2500, -20000], 'sin': [2500.125, -2500.125], 'cos': [2500.125, -2500.125],
           'reciprocal': [2500, -2500], 'log': [2500, 20000], 'log2': [2500], 'log10': [2500], 'sqrt': [2500, 20000], 'log1p': [2500],
           'arccosh': [2500], 'square': [-2500], 'negative': [-2500], 'gammaln': [200.5], 'psi': [200.5], 'sinh': [-20.5], 'cosh': [-20.5]}
    far_from = len(cases)
    for name, pts in sorted(FAR.items()):
        for xf in pts:
            for n in ([0, 1, 2, 3] if tier == 'quick' else range(0, 7)):
                rep.count('far tail', name)
                cases.append((name, [], F(xf), n, False))
    # implementation values
    results = []
    for name, prm, x, n, has_model in cases:
        f = getattr(nd, name)
        rep.count('function', name); rep.count('n', n)
        try:
            xv = numpy.array([float(x)])
            args = list(prm) + [xv]
            y = float(numpy.asarray(f(*args, n=n)).reshape(-1)[0])
        except Exception as e:
            rep.violation('impl:%s:exception' % name, 'nthderiv.%s(x=%s, n=%d) raises %r' % (name, x, n, e), dict(kind='exception', function=name, prm=prm, x=str(x), n=n))
            y = None
        results.append(y)
    # (b) mpmath oracle
    req = [[name, prm, [x.numerator, x.denominator], n] for name, prm, x, n, _ in cases]
    try:
        p = subprocess.run(['python3-vt', os.path.join(os.path.dirname(os.path.abspath(__file__)), 'mp_oracle.py')], input=json.dumps(req), capture_output=True, text=True, timeout=1200)
        oracle = json.loads(p.stdout)
    except Exception as e:
        raise lib.BrokenCheck('mpmath oracle failed: %r' % e)
    # HIGH orders (where (n-1)!, n^n, ... leave the int64 range) of the closed forms with an elementary n-th derivative: exact rational /
    # float formula written out here (the certified enclosure of the Coq closed form is too slow to unfold at n = 30), relative 1e-10
    import math
    fact = math.factorial
    def cyc(vals, n): return vals[n % 4]
    HIGHREF = {
        'log': lambda x, n: F((-1) ** (n - 1) * fact(n - 1)) / x ** n,
        'log1p': lambda x, n: F((-1) ** (n - 1) * fact(n - 1)) / (1 + x) ** n,
        'log2': lambda x, n: float(F((-1) ** (n - 1) * fact(n - 1)) / x ** n) / math.log(2),
        'log10': lambda x, n: float(F((-1) ** (n - 1) * fact(n - 1)) / x ** n) / math.log(10),
        'reciprocal': lambda x, n: F((-1) ** n * fact(n)) / x ** (n + 1),
        'exp': lambda x, n: math.exp(x), 'expm1': lambda x, n: math.exp(x),
        'exp2': lambda x, n: math.log(2) ** n * 2.0 ** float(x),
        'sin': lambda x, n: cyc([math.sin(x), math.cos(x), -math.sin(x), -math.cos(x)], n),
        'cos': lambda x, n: cyc([math.cos(x), -math.sin(x), -math.cos(x), math.sin(x)], n),
        'sinh': lambda x, n: math.sinh(x) if n % 2 == 0 else math.cosh(x),
        'cosh': lambda x, n: math.cosh(x) if n % 2 == 0 else math.sinh(x),
        'sqrt': lambda x, n: float(numpy.prod([F(1, 2) - k for k in range(n)])) * float(x) ** (0.5 - n),
        'square': lambda x, n: 0.0, 'negative': lambda x, n: 0.0,
    }
    for name in sorted(HIGHREF):
        for n in ([13, 22, 30] if tier == 'quick' else [11, 13, 17, 20, 21, 22, 23, 25, 30]):
            x = rng.choice([F(3, 4), F(2), F(7, 2), F(5, 4)])
            rep.count('high order', n); rep.count('function', name)
            rep.case(('high-order', name, str(x), n), True, sample=dict(check='high order', function=name, x=str(x), n=n))
            try:
                y = float(numpy.asarray(getattr(nd, name)(numpy.array([float(x)]), n=n)).reshape(-1)[0])
                want = float(HIGHREF[name](x if name in ('log', 'log1p', 'reciprocal', 'log2', 'log10') else float(x), n))
                if not (abs(y - want) <= 1e-10 * abs(want)):
                    rep.violation('high-order:%s' % name, 'nthderiv.%s(%s, n=%d) = %r but the %d-th derivative is %r' % (name, x, n, y, n, want),
                                  dict(kind='high-order', function=name, x=str(x), n=n, impl=y, want=want))
            except Exception as e:
                rep.violation('impl:%s:exception' % name, 'nthderiv.%s(x=%s, n=%d) raises %r' % (name, x, n, e), dict(kind='exception', function=name, prm=[], x=str(x), n=n))
    goals = []
    for ci_, ((name, prm, x, n, has_model), y, o) in enumerate(zip(cases, results, oracle)):
        meta = dict(function=name, prm=prm, x=str(x), n=n, impl=y, mpmath=o)
        rep.case((name, json.dumps(prm), str(x), n), n >= 1, sample=meta)
        if y is None:
            continue
        if o is not None and ci_ >= far_from:
            ov = float(o)
            if not numpy.isfinite(y) or abs(y - ov) > 1e-6 * abs(ov) + 1e-300:
                rep.violation('oracle:far:%s' % name, 'nthderiv.%s(%s, n=%d) = %r but the %d-th derivative is %s (far tail, relative comparison)' % (name, x, n, y, n, o), dict(kind='oracle', case=meta))
            continue
        if o is not None:
            ov = float(o)
            if not numpy.isfinite(y) or abs(y - ov) > 1e-7 * (1 + abs(ov)) * max(1, n) ** n:
                rep.violation('oracle:%s' % name, 'nthderiv.%s(%s, n=%d) = %r but the %d-th derivative is %s' % (name, x, n, y, n, o), dict(kind='oracle', case=meta))
                continue
        if has_model and numpy.isfinite(y) and not (name in ('erf', 'erfi') and n == 0):       # order 0 of erf/erfi is the integral itself
            tol = F(1, 10 ** 9) * (1 + abs(lib.frac(y)))
            goals.append((len(goals), 'Rabs (g_%s %d %s - %s) <= %s' % (name, n, rlit(x), rlit(lib.frac(y)), rlit(tol)), meta))
    # (a) interval evaluation of the Coq model
    ok = run_interval(goals)
    for (k, stmt, meta) in goals:
        rep.count('interval', meta['function'])
        if ok.get(k) is None:
            rep.violation('corr:uneval', 'interval evaluation could not be run', dict(kind='correspondence', name='corr.C16.interval', goal=stmt), no_input=True)
            break
        if not ok[k]:
            rep.violation('model:%s' % meta['function'], 'nthderiv.%s(%s, n=%d) = %r is outside the certified enclosure of the proved closed form' % (meta['function'], meta['x'], meta['n'], meta['impl']),
                          dict(kind='model', case=meta, goal=stmt))
    # (d) call forms: fresh result, separate out= buffer, and out= aliasing the argument must agree (the argument is read, never clobbered first)
    for name, (dom, has_model) in sorted(FUNCS.items()):
        f = getattr(nd, name)
        for _ in range(2 if tier == 'quick' else 10):
            lo, hi = rng.choice(dom)
            pts = numpy.array([float(F(rng.randint(int(lo * 8), int(hi * 8)), 8)) + 0.03125 for _ in range(3)])
            pts = pts[(pts > float(lo)) & (pts < float(hi))]
            if name == 'reciprocal':
                pts = pts[pts != 0]
            if pts.size == 0:
                continue
            n = rng.randint(0, nmax)
            prm = [rng.randint(0, 3)] if name == 'polygamma' else ([rng.choice([0.5, 1.5, -0.5]), rng.choice([0.5, 1.5, 2.0])] if name == 'hyperu' else [])
            rep.count('call form', name)
            rep.case(('callform', name, json.dumps(prm), pts.tobytes().hex(), n), n >= 1, sample=dict(check='call forms', function=name, n=n))
            try:
                plain = numpy.array(f(*(list(prm) + [pts.copy()]), n=n), copy=True)
                buf = numpy.full_like(pts, 7.0); r2 = f(*(list(prm) + [pts.copy()]), out=buf, n=n)
                xin = pts.copy(); r3 = f(*(list(prm) + [xin]), out=xin, n=n)
                bad = None
                if not numpy.array_equal(plain, numpy.asarray(r2), equal_nan=True) or not numpy.array_equal(plain, buf, equal_nan=True):
                    bad = 'out=<separate buffer>'
                elif not numpy.array_equal(plain, numpy.asarray(r3), equal_nan=True) or not numpy.array_equal(plain, xin, equal_nan=True):
                    bad = 'out=x (in place)'
                if bad:
                    rep.violation('callform:%s' % name, 'nthderiv.%s(x, n=%d) with %s differs from the plain call' % (name, n, bad),
                                  dict(kind='callform', function=name, prm=prm, x=pts.tolist(), n=n, form=bad))
            except Exception as e:
                rep.notes.append('call form of %s raised %r' % (name, e))
    # (c) piecewise functions away from kinks
    for name in ['rint', 'fix', 'floor', 'ceil', 'trunc', 'sign', 'absolute', 'clip']:
        for _ in range(per):
            x = F(rng.randint(-24, 24), 8) + F(1, 16)
            n = rng.randint(0, 3)
            xv = numpy.array([float(x)])
            rep.count('function', name)
            rep.case((name, str(x), n), n >= 1, sample=dict(function=name, x=str(x), n=n))
            try:
                if name == 'clip':
                    got = float(nd.clip(-1.0, 1.5, xv, n=n)[0])
                    want = float(numpy.clip(float(x), -1.0, 1.5)) if n == 0 else (1.0 if (n == 1 and -1.0 <= float(x) <= 1.5) else 0.0)
                else:
                    got = float(getattr(nd, name)(xv, n=n)[0])
                    base = {'rint': numpy.rint, 'fix': numpy.fix, 'floor': numpy.floor, 'ceil': numpy.ceil, 'trunc': numpy.trunc, 'sign': numpy.sign, 'absolute': numpy.absolute}[name]
                    want = float(base(float(x))) if n == 0 else (float(numpy.sign(float(x))) if (name == 'absolute' and n == 1) else 0.0)
                if got != want:
                    rep.violation('piecewise:%s' % name, 'nthderiv.%s(%s, n=%d) = %r, expected %r' % (name, x, n, got, want), dict(kind='piecewise', function=name, x=str(x), n=n))
            except Exception as e:
                rep.violation('piecewise:%s:exception' % name, 'nthderiv.%s raises %r' % (name, e), dict(kind='piecewise', function=name, x=str(x), n=n))
    import r9
    r9.c16_same_object(rep, nd, FUNCS, rng, tier)
    import r10
    r10.c16_orders_out_of_sequence(rep, nd, FUNCS, rng, tier)
    return rep.finish()


def run_interval(goals, per_file=25):
    files = []
    for k, chunk in enumerate(lib.shard(goals, per_file)):
        # zfact m = IZR (Z.of_nat (fact m)): unfolding it by cbn builds m! in unary (9! = 362880 stalls interval for minutes), so the
        # factorials are replaced by binary literals, each replacement proved by vm_compute
        body = ('From Coq Require Import Reals ZArith.\nFrom Interval Require Import Tactic.\nFrom AlgoV Require Import NthDeriv NthDerivErf.\nLocal Open Scope R_scope.\n'
                'Local Arguments zfact : simpl never.\n'
                'Ltac zf m v := try replace (zfact m) with (IZR v) by (unfold zfact; apply f_equal; vm_compute; reflexivity).\n')
        for idx, stmt, meta in chunk:
            n = meta['n']
            zfs = ' '.join('zf %d%%nat %d%%Z.' % (m, math.factorial(m)) for m in range(0, n + 1))
            body += 'Goal %s.\nProof. %s. %s first [ interval with (i_prec 90); idtac "IVOK %d" | idtac "IVFAIL %d" ]. Abort.\n' % (stmt, UNFOLD, zfs, idx, idx)
        files.append(('iv_C16_%03d' % k, body))
    res = lib.run_case_files(PID, files, timeout=900)
    ok = {}
    for name, rc, o, e, dt in res:
        txt = o + e
        for m in re.finditer(r'IV(OK|FAIL) (\d+)', txt):
            ok[int(m.group(2))] = (m.group(1) == 'OK')
    return ok


def replay(path):
    pl = json.load(open(path))
    return main(pl.get('tier', 'quick'), pl.get('seed', 0))
