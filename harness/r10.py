"""Checks added after round 10 of the seeded changes (size-conditional branches, shared caches handed out by reference, structure
shortcuts for constant / gapped operands, orders requested out of sequence)."""
import numpy


def _data(v):
    return numpy.asarray(getattr(v, 'data', v))


def _conv_pow(x, r):
    """r-fold Cauchy product of the coefficient array x (D, P, ...) by plain NumPy"""
    D = x.shape[0]
    acc = numpy.zeros_like(x); acc[0] = 1
    for _ in range(r):
        new = numpy.zeros_like(x)
        for d in range(D):
            for k in range(d + 1):
                new[d] += acc[k] * x[d - k]
        acc = new
    return acc


# ------------------------------------------------------------------------------------------------ C02
def c02_large_operands(rep, algopy, rng, tier):
    """operands with MANY elements per coefficient (9000-vectors, 96x96 matrices): a code path chosen by size computes the same truncated
    power-series arithmetic (integer powers, products, quotients, in-place forms)"""
    UTPM = algopy.UTPM
    rs = numpy.random.RandomState(rng.randint(0, 10 ** 6))
    for shp in ([(9000,), (96, 96)] if tier == 'quick' else [(9000,), (96, 96), (3, 4000), (20000,)]):
        D = rng.randint(2, 4); P = rng.randint(1, 2)
        x = rs.randint(-8, 9, size=(D, P) + shp) / 4.0; y = rs.randint(-8, 9, size=(D, P) + shp) / 4.0
        y[0] = numpy.where(y[0] == 0, 0.5, y[0])
        for name, f, ref in [('x**3', lambda: UTPM(x.copy()) ** 3, lambda: _conv_pow(x, 3)), ('x**4', lambda: UTPM(x.copy()) ** 4, lambda: _conv_pow(x, 4)),
                             ('x**5', lambda: UTPM(x.copy()) ** 5, lambda: _conv_pow(x, 5)),
                             ('x*y', lambda: UTPM(x.copy()) * UTPM(y.copy()), None), ('x*=y', lambda: _imul(UTPM, x, y), None),
                             ('(x*y)/y', lambda: (UTPM(x.copy()) * UTPM(y.copy())) / UTPM(y.copy()), lambda: x)]:
            rep.count('large operands', '%s on shape %s' % (name, shp))
            rep.case(('large', name, shp, D, P), True, sample=dict(check='large operands', op=name, shape=list(shp), D=D, P=P))
            try:
                got = _data(f())
                if ref is None:
                    want = numpy.zeros_like(x)
                    for d in range(D):
                        for k in range(d + 1):
                            want[d] += x[k] * y[d - k]
                else:
                    want = ref()
            except Exception as e:
                rep.violation('large:%s:exception' % name, '%s on operands of shape %s raises %r' % (name, shp, e), dict(kind='large', op=name, shape=list(shp))); continue
            if got.shape != want.shape or not numpy.allclose(got, want, rtol=1e-9, atol=1e-9):
                k = tuple(int(v) for v in numpy.argwhere(~numpy.isclose(got, want, rtol=1e-9, atol=1e-9))[0]) if got.shape == want.shape else None
                rep.violation('large:%s' % name, '%s on operands of shape %s (D=%d, P=%d) is not the truncated product: first differing coefficient %s' % (name, shp, D, P, k),
                              dict(kind='large', op=name, shape=list(shp), D=D, P=P, seed_note='data from numpy RandomState; values k/4'))


def _imul(UTPM, x, y):
    a = UTPM(x.copy()); a *= UTPM(y.copy()); return a


# ------------------------------------------------------------------------------------------------ C03
def c03_eigh_mixed_ties(rep, ap, rng, tier):
    """reverse mode of eigh with several directions of which SOME have a repeated base eigenvalue and others do not: in the directions with
    distinct eigenvalues the adjoint of A pairs with a tangent V as the forward derivative does (functions of l and of Q diag(c) Q^T)"""
    UTPM = ap.UTPM
    for it in range(6 if tier == 'quick' else 60):
        n = 3
        def generic():
            S = numpy.zeros((n, n))
            for i in range(n):
                for j in range(i + 1, n):
                    S[i, j] = rng.randint(-3, 3) / 4; S[j, i] = -S[i, j]
            Qm = numpy.linalg.solve(numpy.eye(n) + S, numpy.eye(n) - S)
            A0 = Qm @ numpy.diag(sorted(rng.sample([-2.0, -0.5, 1.0, 2.5, 4.0], n))) @ Qm.T
            return 0.5 * (A0 + A0.T)
        tied = numpy.diag([2.0, 2.0, 5.0])
        order = [tied, generic()] if it % 2 == 0 else [generic(), tied, generic()]
        P = len(order)
        c = numpy.array([0.5, -1.0, 2.0]); W = numpy.array([[1.0, 0.5, -1.0], [0.5, 2.0, 0.25], [-1.0, 0.25, 1.5]]); wl = numpy.array([1.5, -0.5, 2.0])

        def f(A):
            l, Qm = ap.eigh(A)
            return ap.sum(l * wl) + ap.sum(ap.dot(Qm * c, Qm.T) * W)
        rep.count('eigh: directions with and without ties', P)
        rep.case(('eigh-mixed-ties', it), True, sample=dict(check='eigh pullback, tie in one direction only', P=P))
        try:
            A = numpy.zeros((1, P, n, n)); A[0] = order
            cg = ap.CGraph(); fA = ap.Function(UTPM(A.copy())); fy = f(fA); cg.trace_off()
            cg.independentFunctionList = [fA]; cg.dependentFunctionList = [fy]
            cg.pullback([UTPM(numpy.ones((1, P)))])
            Abar = numpy.array(fA.xbar.data[0], copy=True)
            for p in range(P):
                if order[p] is tied:
                    continue
                V = numpy.array([[rng.randint(-4, 4) / 4 for _ in range(n)] for _ in range(n)]); V = 0.5 * (V + V.T)
                dirn = numpy.zeros((2, 1, n, n)); dirn[0, 0] = order[p]; dirn[1, 0] = V
                y1 = float(_data(f(UTPM(dirn)))[1, 0])
                lhs = float(numpy.sum(0.5 * (Abar[p] + Abar[p].T) * V))
                if abs(lhs - y1) > 1e-8 * (1 + abs(y1)):
                    rep.violation('pullback:eigh:mixed-ties', 'eigh with %d directions, one of them with a repeated base eigenvalue: <Abar, V> = %r but the forward derivative is %r in direction %d (distinct eigenvalues)' % (P, lhs, y1, p),
                                  dict(kind='eigh-mixed-ties', P=P, direction=p, bases=[b.tolist() for b in order], V=V.tolist()))
                    break
        except Exception as e:
            rep.notes.append('eigh with mixed ties raised %r' % (e,))


# ------------------------------------------------------------------------------------------------ C07 / C11 (direct)
def c07_gapped_matrix(rep, algopy, rng, tier):
    """solve / inv / dot with a matrix polynomial that has INTERIOR coefficient blocks equal to zero in every direction (A0 + A2 t^2, even
    curves) and with a constant one, in every operand mix: A(t) X(t) = B(t) modulo t^D"""
    UTPM = algopy.UTPM
    for it in range(12 if tier == 'quick' else 150):
        D = rng.randint(3, 5); P = rng.randint(1, 3); n = rng.randint(2, 3); k = rng.randint(1, 2)
        A = numpy.zeros((D, P, n, n)); B = numpy.zeros((D, P, n, k))
        for idx in numpy.ndindex(*A.shape):
            A[idx] = rng.randint(-8, 8) / 4
        for idx in numpy.ndindex(*B.shape):
            B[idx] = rng.randint(-8, 8) / 4
        for p in range(P):
            # strictly diagonally dominant base matrices (off-diagonal entries in [-1, 1], n <= 3): never singular
            A[0, p] = numpy.array([[rng.randint(-4, 4) / 4 for _ in range(n)] for _ in range(n)]) + numpy.diag([rng.choice([4.0, 5.0, -4.0]) for _ in range(n)])
        pattern = ['A0 + A2 t^2 + ...', 'even', 'A0 + A1 t + A3 t^3', 'constant'][it % 4]
        if pattern == 'A0 + A2 t^2 + ...':
            A[1] = 0
        elif pattern == 'even':
            A[1::2] = 0
        elif pattern == 'A0 + A1 t + A3 t^3':
            A[2] = 0
            if D > 4:
                A[4] = 0
        else:
            A[1:] = 0
        mix = ['Ua', 'UU', 'aU'][(it // 4) % 3]
        rep.count('gapped matrix polynomial', pattern + ' / ' + mix)
        rep.case(('gapped', pattern, mix, A.tobytes().hex()[:48]), True, sample=dict(check='solve with interior zero coefficient blocks', pattern=pattern, mix=mix, D=D, P=P))
        try:
            if mix == 'Ua':
                X = _data(algopy.solve(UTPM(A.copy()), B[0, 0].copy())); Bt = numpy.zeros_like(B); Bt[0] = B[0, 0]; Aa = A
            elif mix == 'UU':
                X = _data(algopy.solve(UTPM(A.copy()), UTPM(B.copy()))); Bt = B; Aa = A
            else:
                if P > 1:
                    continue
                X = _data(algopy.solve(A[0, 0].copy(), UTPM(B.copy()))); Bt = B; Aa = numpy.zeros_like(A); Aa[0] = A[0, 0]
            res = 0.0
            for d in range(D):
                acc = -Bt[d].copy()
                for c in range(d + 1):
                    acc = acc + numpy.einsum('pij,pjk->pik', Aa[c], X[d - c])
                res = max(res, float(numpy.max(numpy.abs(acc))))
        except Exception as e:
            rep.violation('solve:gapped:exception', 'solve (%s, %s) raises %r' % (pattern, mix, e), dict(kind='gapped', pattern=pattern, mix=mix)); continue
        if not res <= 1e-9:
            rep.violation('solve:gapped:%s' % mix, 'solve (%s) with A(t) = %s: residual of A(t) X(t) - B(t) modulo t^D is %.3g' % (mix, pattern, res),
                          dict(kind='gapped', pattern=pattern, mix=mix, A=A.tolist(), B=B.tolist()))


# ------------------------------------------------------------------------------------------------ C09
def c09_point_layouts(rep, ap, rng, tier):
    """rank-2 / rank-3 points held in Fortran order, as transposed views or with swapped axes: every forward driver sees the point in its
    LOGICAL (row-major) element order, as for a C-ordered copy"""
    UTPM = ap.UTPM
    for it in range(8 if tier == 'quick' else 100):
        shp = rng.choice([(2, 3), (3, 2), (2, 2, 2)])
        x = numpy.array([rng.randint(-3, 3) for _ in range(int(numpy.prod(shp)))], dtype=float).reshape(shp)
        n = x.size
        C = numpy.arange(1, n + 1, dtype=float); Q = (numpy.arange(n) % 3 - 1.0)
        f = lambda z: ap.sum(C * z * z * z) + ap.sum(Q * z[::-1] * z)            # acts on the flattened point
        layouts = {'F': numpy.asfortranarray(x), 'T-view': numpy.array(x.T, copy=True, order='C').T, 'swapaxes': numpy.array(numpy.swapaxes(x, 0, -1), copy=True).swapaxes(0, -1)}
        ref = numpy.asarray(UTPM.extract_hessian(n, f(UTPM.init_hessian(numpy.ravel(x.copy())))))
        for lname, xl in layouts.items():
            rep.count('driver', 'hessian: point layout'); rep.count('point layout', lname)
            rep.case(('point-layout', shp, lname, x.tobytes().hex()), True, sample=dict(driver='init_hessian', point_shape=list(shp), layout=lname))
            try:
                assert numpy.array_equal(xl, x)
                got = numpy.asarray(UTPM.extract_hessian(n, f(UTPM.init_hessian(xl))))
                if got.shape != ref.shape or not numpy.array_equal(got, ref):
                    rep.violation('layout:init_hessian:%s' % lname, 'extract_hessian(init_hessian(x)) for a point of shape %s held as %s differs from the C-ordered copy of the same point' % (shp, lname),
                                  dict(kind='point-layout', shape=list(shp), layout=lname, x=x.tolist()))
            except Exception as e:
                rep.violation('layout:init_hessian:%s:exception' % lname, 'init_hessian of a %s point of shape %s raises %r' % (lname, shp, e), dict(kind='point-layout', shape=list(shp), layout=lname))
    # many variables, low degree: N = 14, 15 with d = 2 (number of rays 105, 120)
    import algopy.exact_interpolation as ei
    for N in ([14] if tier == 'quick' else [14, 15, 21]):
        xs = numpy.array([rng.randint(-2, 2) for _ in range(N)], dtype=float)
        A = numpy.array([[rng.randint(-3, 3) for _ in range(N)] for _ in range(N)], dtype=float); A = A + A.T
        rep.count('driver', 'extract_tensor:N=%d,d=2' % N)
        rep.case(('tensor-many-variables', N), True, sample=dict(driver='extract_tensor', N=N, d=2))
        try:
            T = numpy.asarray(UTPM.extract_tensor(N, 0.5 * ap.dot(UTPM.init_tensor(2, xs), ap.dot(A, UTPM.init_tensor(2, xs))), as_full_matrix=False), dtype=float).reshape(-1)
            mi = ei.generate_multi_indices(N, 2)
            want = []
            for al in mi:
                idx = [i for i, a in enumerate(al) for _ in range(int(a))]
                want.append(0.5 * A[idx[0], idx[1]] if idx[0] == idx[1] else A[idx[0], idx[1]])
            if T.shape != (len(mi),) or not numpy.allclose(T, want, rtol=0, atol=1e-7):
                rep.violation('tensor:many-variables', 'extract_tensor (N=%d, d=2) of x^T A x / 2 is not the matrix A' % N, dict(kind='tensor-many-variables', N=N))
        except Exception as e:
            rep.violation('tensor:many-variables:exception', 'init_tensor / extract_tensor with N=%d raises %r' % (N, e), dict(kind='tensor-many-variables', N=N))


# ------------------------------------------------------------------------------------------------ C13
def c13_fft_out_buffers(rep, algopy, rng, tier):
    """fft / ifft writing into a caller-supplied, reused result (out=) for inputs some of whose coefficient slices are exactly zero: every
    slice of the result is NumPy's transform of that slice (a zero slice transforms to zero, whatever the buffer held)"""
    UTPM = algopy.UTPM
    import importlib
    afft = importlib.import_module(algopy.__name__ + '.fft')
    for it in range(8 if tier == 'quick' else 80):
        D = rng.randint(2, 4); P = rng.randint(1, 3); shp = rng.choice([(4,), (2, 4), (3, 2)])
        axis = rng.choice([-1, 0]) if len(shp) > 1 else -1
        x = numpy.zeros((D, P) + shp)
        for idx in numpy.ndindex(*x.shape):
            x[idx] = rng.randint(-8, 8) / 4
        x[rng.randint(1, D - 1), rng.randrange(P)] = 0.0           # a direction in which some order vanishes
        if it % 2:
            x[D - 1] = 0.0
        for name, tf, npf in (('fft', afft.fft, numpy.fft.fft), ('ifft', afft.ifft, numpy.fft.ifft)):
            rep.count('fft with a reused out= buffer', name)
            rep.case(('fft-out', name, axis, x.tobytes().hex()[:48]), True, sample=dict(check='fft into a reused result buffer', function=name, axis=axis, D=D, P=P))
            try:
                buf = UTPM(numpy.full((D, P) + shp, 7.25 - 2.5j))
                r = tf(UTPM(x.copy()), axis=axis, out=(buf,)) if 'out' in tf.__code__.co_varnames else None
                if r is None:
                    r = UTPM.fft(UTPM(x.copy()), axis=axis, out=(buf,)) if name == 'fft' else UTPM.ifft(UTPM(x.copy()), axis=axis, out=(buf,))
                got = _data(buf)
                want = numpy.array([[npf(x[d, p], axis=axis) for p in range(P)] for d in range(D)])
            except Exception as e:
                rep.notes.append('%s with out= raised %r' % (name, e)); continue
            if got.shape != want.shape or not numpy.allclose(got, want, rtol=1e-13, atol=1e-13):
                rep.violation('op:%s:out-buffer' % name, '%s(x, out=(buffer,)) with a prefilled buffer: a coefficient slice of the result is not numpy.fft.%s of the corresponding slice of x' % (name, name),
                              dict(kind='fft-out', function=name, axis=axis, x=x.tolist()))


# ------------------------------------------------------------------------------------------------ C16
def c16_orders_out_of_sequence(rep, nd, funcs, rng, tier):
    """orders requested OUT of sequence, high first (n = 6, 2, 9, 3, ...): each value equals the value the same order gives when asked in a
    fresh process (reference: a subprocess asking for that single order first)"""
    import subprocess, sys, json, os
    names = [n for n in sorted(funcs) if n not in ('polygamma', 'hyperu')]
    orders = [6, 2, 9, 3, 7, 1, 5]
    pts = {}
    for name in names:
        dom = funcs[name][0]
        lo, hi = dom[0] if isinstance(dom, list) else dom
        lo = max(float(lo), -2.0); hi = min(float(hi), 3.0)
        pts[name] = lo + 0.37 * (hi - lo) if name != 'reciprocal' else 0.75
    # reference: every (function, order) pair first in its own interpreter, increasing orders only (the sequence every test uses)
    code = ('import json, sys, numpy\nimport algopy.nthderiv as nd\nreq = json.load(sys.stdin)\nout = {}\n'
            'for name, x in req.items():\n    out[name] = [float(numpy.asarray(getattr(nd, name)(numpy.array([x]), n=n)).reshape(-1)[0]) for n in range(0, 10)]\nprint(json.dumps(out))\n')
    try:
        p = subprocess.run([sys.executable, '-c', code], input=json.dumps(pts), capture_output=True, text=True, timeout=300, env=dict(os.environ))
        ref = json.loads(p.stdout)
    except Exception as e:
        rep.notes.append('reference interpreter for out-of-sequence orders failed: %r' % (e,)); return
    # this process: a FRESH import state for nthderiv is not available, but tables only grow: ask high orders of a shifted point first
    for name in names:
        f = getattr(nd, name)
        for n in orders:
            rep.count('orders out of sequence', name)
            rep.case(('out-of-sequence', name, n), True, sample=dict(check='orders requested out of sequence', function=name, n=n))
            try:
                got = float(numpy.asarray(f(numpy.array([pts[name]]), n=n)).reshape(-1)[0])
            except Exception as e:
                rep.notes.append('%s n=%d raised %r' % (name, n, e)); break
            want = ref[name][n]
            if not (got == want or abs(got - want) <= 1e-12 * abs(want) or (numpy.isnan(got) and numpy.isnan(want))):
                rep.violation('sequence:%s' % name, 'nthderiv.%s(%r, n=%d) asked out of sequence gives %r, asked in increasing order in a fresh interpreter %r' % (name, pts[name], n, got, want),
                              dict(kind='out-of-sequence', function=name, n=n, x=pts[name], got=got, want=want))
                break


# ------------------------------------------------------------------------------------------------ C17
def c17_returned_matrices_are_fresh(rep, algopy, rng, tier):
    """what a conversion returns belongs to the caller: after the caller overwrites a returned permutation matrix / sign / vector, the next
    conversion of an EQUAL argument returns the right thing again"""
    U = algopy.utils
    UTPM = algopy.UTPM
    for N in range(1, 5):
        for _ in range(3):
            piv = numpy.array([rng.randint(i, N - 1) for i in range(N)])
            rep.count('returned object overwritten, then asked again', 'piv2mat'); rep.case(('fresh', 'piv2mat', N, tuple(piv.tolist())), True, sample=dict(check='results are fresh objects', function='piv2mat', N=N))
            try:
                W1 = U.piv2mat(piv.copy()); ref = numpy.array(W1, copy=True)
                W1[...] = 7.0
                W2 = U.piv2mat(piv.copy())
                d = numpy.zeros((1, 2, N), dtype=int); d[0] = piv
                W3 = numpy.asarray(UTPM.piv2mat(UTPM(d)).data)[0, 0]
                if not (numpy.array_equal(W2, ref) and numpy.array_equal(W3, ref)):
                    rep.violation('piv:not-fresh', 'piv2mat(%s) after the caller overwrote the matrix returned by an earlier call with the same pivots: the overwritten values come back' % piv.tolist(), dict(kind='fresh', piv=piv.tolist()))
                    return
            except Exception as e:
                rep.notes.append('piv2mat freshness raised %r' % (e,))
    A = numpy.array([[1.0, 2.0, 3.0], [2.0, 5.0, 6.0], [3.0, 6.0, 9.0]])
    for fn, arg in (('symvec', A), ('vecsym', U.symvec(A))):
        r1 = getattr(U, fn)(arg.copy()); ref = numpy.array(r1, copy=True); r1[...] = -3.0
        r2 = getattr(U, fn)(arg.copy())
        rep.case(('fresh', fn), True)
        if not numpy.array_equal(r2, ref):
            rep.violation('conv:not-fresh:%s' % fn, '%s returns the array an earlier call handed out (overwritten by the caller since)' % fn, dict(kind='fresh', function=fn))
