"""Shared driver of C11 (directions are independent) and C12 (low orders do not depend on the truncation degree).
Predicate evaluated directly on the implementation: run the op on all inputs, and on the inputs restricted to one
direction / truncated to D' coefficients, and compare.  The tie of the implementation to the proved model comes from
evaluating the Coq model (as in C01) on the restricted runs of the element-wise operations."""
import json
from fractions import Fraction
import numpy
import lib, ops, elem, c01, progs, c05
from lib import Report

RTOL = 1e-12


def restrict(inputs, mode, k):
    out = []
    for x in inputs:
        a = numpy.array(x, dtype=float)
        out.append(a[:, k:k + 1] if mode == 'dirs' else a[:k])
    return out


def compare(full, sub, mode, k):
    """returns (ok, maxdev, description)"""
    worst = 0.0
    for i, (f, s) in enumerate(zip(full, sub)):
        f = numpy.asarray(f); s = numpy.asarray(s)
        part = f[:, k:k + 1] if mode == 'dirs' else f[:k]
        if part.shape != s.shape:
            return False, float('inf'), 'output %d: shape %s of the restricted run, %s expected' % (i, s.shape, part.shape)
        if not (numpy.all(numpy.isfinite(part)) and numpy.all(numpy.isfinite(s))):
            return False, float('inf'), 'output %d: non-finite values' % i
        dev = numpy.abs(part - s) / (1 + numpy.abs(part))
        m = float(dev.max()) if dev.size else 0.0
        worst = max(worst, m)
        if m > RTOL:
            idx = numpy.unravel_index(int(numpy.argmax(dev)), dev.shape)
            return False, m, 'output %d coefficient %s: %r in the full run, %r in the restricted run' % (i, tuple(int(v) for v in idx), float(part[idx].real), float(s[idx].real))
    return True, worst, ''


def run(pid, mode, tier, seed, families=None, extra=None):
    algopy = lib.import_algopy()
    rep = Report(pid, tier, seed)
    what = {'dirs': 'each direction p alone (x.data[:, p:p+1])', 'trunc': "the inputs truncated to D' < D coefficients"}[mode]
    rep.rule = ('every registered operation (element-wise functions through all call routes, arithmetic with UTPM/constant operands and '
                'broadcasting, linear algebra and factorizations once registered) on random inputs with different base points per direction; '
                'the op is run on the full inputs and on %s; one evaluation = one (case, restriction) pair; non-trivial = P>=2 resp. D>=3 and '
                'some non-zero higher coefficient; distinct by case content and restriction' % what)
    rep.assumptions = ['relative tolerance 1e-12 between the two runs of the implementation (vectorised NumPy kernels may round differently)',
                       'the implementation is tied to the proved model by evaluating Series.v on the restricted runs of element-wise ops']
    rep.theorems()
    rng = lib.rng_for(seed, pid)
    names = [n for n, o in sorted(ops.ops_for(pid).items()) if families is None or o.family in families]
    per_op = 6 if tier == "quick" else 40
    Dmax = 6 if tier == 'quick' else 9
    sub_cases = []
    maxdev = 0.0
    for nm in names:
        op = ops.OPS[nm]
        n_rand = per_op * (4 if nm.startswith(('inplace:', 'product:')) else 1)
        forced = [3, 5] if nm.startswith('elem:') else []
        for it_ in range(n_rand + len(forced)):
            case = op.gen(rng, Dmax=Dmax, Pmax=3)
            inputs = [numpy.array(x, dtype=float) for x in case['inputs']]
            if it_ >= n_rand:
                # deterministic coverage: first order vanishes everywhere, degree 3 resp. 5 (not a multiple of the lowest non-vanishing order)
                Df = forced[it_ - n_rand]
                for _t in range(30):
                    if inputs[0].shape[0] >= Df:
                        break
                    case = op.gen(rng, Dmax=max(Dmax, 6), Pmax=3)
                    inputs = [numpy.array(x, dtype=float) for x in case['inputs']]
                if inputs[0].shape[0] < Df:
                    continue
                inputs = [x[:Df].copy() for x in inputs]
                for x in inputs:
                    x[1] = 0
                    if not numpy.any(x[2]):
                        x[2] = 0.75
                case['inputs'] = [x.tolist() for x in inputs]
                if 'D' in case:
                    case['D'] = Df
                rep.count('forced: first order vanishes everywhere, D', Df)
            if it_ < n_rand and rng.random() < 0.3 and inputs[0].shape[0] >= 3 and nm != 'arith:floordiv':     # (x // y with 0/0 at every order never terminates)
                # whole higher coefficients that vanish in some direction (x(t) = x_0 + x_2 t^2): kernels that shortcut on zeros
                for x in inputs:
                    for d in range(1, x.shape[0]):
                        for p in range(x.shape[1]):
                            if rng.random() < 0.5:
                                x[d, p] = 0
                case['inputs'] = [x.tolist() for x in inputs]
                rep.count('zero coefficient blocks', True)
            elif it_ < n_rand and rng.random() < 0.2 and inputs[0].shape[0] >= 3 and nm != 'arith:floordiv':
                # the first k orders vanish in EVERY direction and element (x(t) = x_0 + x_{k+1} t^{k+1} + ...): kernels that look for the
                # lowest non-vanishing order of the whole array
                k0 = rng.randint(1, min(2, inputs[0].shape[0] - 2))
                for x in inputs:
                    x[1:1 + k0] = 0
                case['inputs'] = [x.tolist() for x in inputs]
                rep.count('leading orders vanish everywhere', k0)
            D, P = inputs[0].shape[:2]
            ops.LAYOUT = rng.choice(['C', 'C', 'C', 'F', 'T'])       # memory layout of the coefficient arrays handed to the kernels
            rep.count('layout', ops.LAYOUT)
            try:
                full = op.run(algopy, case, inputs)
            except Exception as e:
                # an operation that fails on the full inputs but works on every restriction depends on the other directions / coefficients
                ks0 = list(range(P)) if mode == 'dirs' else list(range(1, D))
                works = bool(ks0)
                for k in ks0:
                    try:
                        op.run(algopy, case, restrict(inputs, mode, k))
                    except Exception:
                        works = False; break
                if works and (P >= 2 if mode == 'dirs' else True):
                    rep.violation('%s:%s:exception-on-full-inputs' % (mode, nm), '%s raises %r on the full inputs but evaluates on %s' % (nm, e, what),
                                  dict(kind='exception', case=case, restriction=None, exc=repr(e)))
                else:
                    rep.notes.append('%s raised %r on the full inputs (decided by the property that owns the op)' % (nm, e))
                continue
            ks = list(range(P)) if mode == 'dirs' else list(range(1, D))
            for k in ks:
                rep.count('op', nm); rep.count('D', D); rep.count('P', P); rep.count('restriction', k)
                nontriv = (P >= 2 if mode == 'dirs' else D >= 3) and any(numpy.any(x[1:] != 0) for x in inputs)
                rep.case((nm, json.dumps(case, sort_keys=True, default=str), k), nontriv,
                         sample=dict(op=nm, D=D, P=P, restriction=k, shapes=[list(x.shape[2:]) for x in inputs]))
                try:
                    sub = op.run(algopy, case, restrict(inputs, mode, k))
                except Exception as e:
                    rep.violation('%s:%s:exception' % (mode, nm), '%s raises %s on %s' % (nm, type(e).__name__, what),
                                  dict(kind='exception', case=case, restriction=k, exc=repr(e)))
                    continue
                ok, dev, why = compare(full, sub, mode, k)
                maxdev = max(maxdev, dev if dev != float('inf') else 0)
                if not ok:
                    rep.violation('%s:%s' % (mode, nm), '%s: %s' % (nm, why),
                                  dict(kind='restriction', mode=mode, case=case, restriction=k, why=why))
            # model tie on one restricted run
            if nm.startswith('elem:') and ks:
                k = rng.choice(ks)
                sub_in = restrict(inputs, mode, k)[0]
                sub_cases.append(dict(fn=nm[5:], prm=case['prm'], D=int(sub_in.shape[0]), P=int(sub_in.shape[1]), shape=list(sub_in.shape[2:]),
                                      pattern='restricted', route=case['route'], data=sub_in.tolist()))
    ops.LAYOUT = 'C'
    program_section(rep, algopy, rng, mode, tier, what)
    driver_section(rep, algopy, rng, mode, tier, what)
    if extra is not None:
        extra(rep, algopy, rng, tier)
    # Coq model on the restricted runs (same machinery as C01, but reported under this property)
    all_terms, owners = [], []
    for sc in sub_cases:
        terms, metas, exc = c01.build_terms(algopy, sc)
        if exc is None:
            for t, m in zip(terms, metas):
                all_terms.append(t); owners.append((sc, m))
    verdicts, logs = lib.eval_bool_cases(pid, c01.IMPORTS, c01.DEFS, all_terms, per_file=150)
    bad = 0
    for (sc, m), v, t in zip(owners, verdicts, all_terms):
        if v is None:
            bad += 1
        elif not v:
            rep.violation('%s:model:%s' % (mode, sc['fn']), '%s on a restricted input differs from the proved model' % sc['fn'],
                          dict(kind='series', fn=sc['fn'], prm=sc['prm'], route=sc['route'], D=sc['D'], x=m['xs'], impl=m['impl'], coq_term=t[:3000]))
    if bad or logs:
        rep.violation('corr:uneval', 'correspondence corr.%s could not be evaluated for %d series' % (pid, bad),
                      dict(kind='correspondence', name='corr.' + pid, log=logs[:3]), no_input=True)
    rep.corr = dict(model_series=len(all_terms), unevaluated=bad, max_relative_deviation=maxdev, operations=len(names))
    return rep.finish()


def cut(a, mode, k):
    return a[:, k:k + 1] if mode == 'dirs' else a[:k]


def prog_close(full, sub, mode, k, tol):
    """full-run coefficients restricted to k against the restricted run; returns None or a description"""
    part = cut(numpy.asarray(full), mode, k); sub = numpy.asarray(sub)
    if part.shape != sub.shape:
        return 'shape %s in the restricted run, %s expected' % (sub.shape, part.shape)
    fin = numpy.isfinite(part) & numpy.isfinite(sub)
    if not fin.all():
        # non-finite coefficients (a direction at a singular point) must at least be non-finite in both runs
        if (numpy.isfinite(part) != numpy.isfinite(sub)).any():
            idx = tuple(int(v) for v in numpy.argwhere(numpy.isfinite(part) != numpy.isfinite(sub))[0])
            return 'coefficient %s: %r in the full run, %r in the restricted run' % (idx, float(part[idx]), float(sub[idx]))
    dev = numpy.where(fin, numpy.abs(numpy.where(fin, part, 0) - numpy.where(fin, sub, 0)) / (1 + numpy.abs(numpy.where(fin, part, 0))), 0)
    if dev.size and dev.max() > tol:
        idx = tuple(int(v) for v in numpy.unravel_index(int(numpy.argmax(dev)), dev.shape))
        return 'coefficient %s: %r in the full run, %r in the restricted run' % (idx, float(part[idx]), float(sub[idx]))
    return None


def program_check(ap, prog, x, ybars, mode, k, tol=1e-9):
    """forward and reverse sweep of a recorded program on the full curve and on its restriction; returns list of (key, why)"""
    out = []
    with numpy.errstate(all='ignore'):
        cg, fx, fys = c05.record(ap, prog, ap.UTPM(x.copy()))
        cg.pushforward([ap.UTPM(x.copy())])
        yfull = [numpy.asarray(f.x.data).copy() for f in cg.dependentFunctionList]
        cg.pullback([ap.UTPM(yb.copy()) for yb in ybars])
        xbar = numpy.asarray(fx.xbar.data).copy()
        xs = cut(x, mode, k)
        ydir = [numpy.asarray(y.data) for y in progs.run(prog, ap.UTPM(xs.copy()), ap)]
        cg2, fx2, fys2 = c05.record(ap, prog, ap.UTPM(xs.copy()))
        cg2.pullback([ap.UTPM(cut(yb, mode, k).copy()) for yb in ybars])
        xbar2 = numpy.asarray(fx2.xbar.data)
    for i, (yf, ys) in enumerate(zip(yfull, ydir)):
        why = prog_close(yf, ys, mode, k, tol)
        if why:
            out.append(('forward', 'output %d, %s' % (i, why)))
    why = prog_close(xbar, xbar2, mode, k, tol)
    if why:
        out.append(('reverse', 'xbar %s' % why))
    return out


def pivots_per_direction(ap, prog, x):
    """pivot vectors LAPACK returns during a forward run of prog on the P directions of x: list over factorizations of [piv of direction p]"""
    import scipy.linalg
    P = x.shape[1]
    log = []
    orig = scipy.linalg.lu_factor

    def spy(a, *args, **kw):
        r = orig(a, *args, **kw)
        log.append(tuple(int(v) for v in r[1]))
        return r
    scipy.linalg.lu_factor = spy
    try:
        with numpy.errstate(all='ignore'):
            progs.run(prog, ap.UTPM(x.copy()), ap)
    except Exception:
        return []
    finally:
        scipy.linalg.lu_factor = orig
    return [log[i:i + P] for i in range(0, len(log) - len(log) % P, P)]


def program_section(rep, ap, rng, mode, tier, what):
    """generated programs (scalar code, buffers, vector/matrix blocks, inv/solve/det, eigh/qr/cholesky): forward evaluation and the
    reverse sweep on all directions / all coefficients against the run restricted to one direction / truncated"""
    n_prog = 80 if tier == "quick" else 1600
    kernel = progs.kernel_programs(rng, ap, reps=1 if tier == 'quick' else 6)
    for it in range(n_prog + len(kernel)):
        if it < n_prog:
            prog = progs.gen_prog(rng, ap, nout=rng.choice([1, 1, 2]), focus='linalg' if it % 2 == 1 else None)
        else:
            # every forward and pullback kernel the generator knows, regardless of what the random composition picked
            prog = kernel[it - n_prog][1]
            rep.count('kernel program', kernel[it - n_prog][0])
        N = prog['N']
        D = rng.randint(1, 4) if mode == 'dirs' else rng.randint(2, 5)
        P = rng.randint(2, 3) if mode == 'dirs' else rng.randint(1, 2)
        x = progs.rand_utpm_data(rng, D, P, N)
        text = progs.to_text(prog)
        ks = list(range(P)) if mode == 'dirs' else list(range(1, D))
        k = rng.choice(ks)
        if mode == 'dirs' and it >= n_prog and kernel[it - n_prog][0].endswith(':pivoting'):
            # base points at which partial pivoting takes DIFFERENT rows in different directions (observed by listening to the LAPACK
            # wrapper during a forward run), restricted to a direction whose pivots differ from those of direction 0
            P = 3
            for attempt in range(30):
                x = progs.rand_utpm_data(rng, D, P, N)
                pivs = pivots_per_direction(ap, prog, x)
                diff = [p_ for p_ in range(1, P) if pivs and any(g[p_] != g[0] for g in pivs)]
                if diff:
                    k = rng.choice(diff)
                    rep.count('program:pivots differ between directions', True)
                    break
            else:
                rep.count('program:pivots differ between directions', False)
        ybars = [progs.rand_utpm_data(rng, D, P, 1)[:, :, 0] for _ in range(len(prog['ret']))]
        rep.count('program:D', D); rep.count('program:P', P); rep.count('program:restriction', k)
        rep.count('program:factorization', any(i[0] in ('eigh', 'qr', 'cholesky', 'svd', 'lu') for i in prog['instrs']))
        rep.case(('program', text, x.tobytes().hex(), k), D >= 2 and len(prog['instrs']) >= 6,
                 sample=dict(check='program forward+reverse', program=text[:300], D=D, P=P, restriction=k))
        payload = dict(kind='program', mode=mode, prog=prog, x=x.tolist(), ybar=[y.tolist() for y in ybars], restriction=k)
        try:
            bad = program_check(ap, prog, x, ybars, mode, k)
        except Exception as e:
            rep.notes.append('program raised %r (decided by C03/C05)' % (e,))
            continue
        for side, why in bad:
            rep.violation('%s:program:%s' % (mode, side), 'generated program, %s sweep on %s: %s' % (side, what, why), dict(payload, why=why, side=side))


VEC_FUNCS = [
    ('A x * sin x', lambda ap, A, x: ap.dot(A, x) * ap.sin(x)),
    ('exp(x) * (A x) + x*x', lambda ap, A, x: ap.exp(x) * ap.dot(A, x) + x * x),
    ('A (x*x) - cos x', lambda ap, A, x: ap.dot(A, x * x) - ap.cos(x)),
    ('rect: B x / (1 + x0*x0)', lambda ap, A, x: ap.dot(A[:2], x) / (1. + x[0] * x[0])),
    ('rect: [A x ; x*x]', lambda ap, A, x: _stack(ap, ap.dot(A, x), x * x)),
]


def _stack(ap, a, b):
    y = ap.zeros(a.shape[0] + b.shape[0], dtype=a)
    y[:a.shape[0]] = a
    y[a.shape[0]:] = b
    return y


def driver_section(rep, ap, rng, mode, tier, what):
    """the graph driver that takes a UTPM argument itself: cg.jacobian(x) for a vector function (M >= 2 rows) on all directions /
    all coefficients against the same driver on the restriction, and its zeroth coefficient against the plain-array driver"""
    for it in range(24 if tier == 'quick' else 400):
        N = rng.randint(2, 4)
        name, f = VEC_FUNCS[it % len(VEC_FUNCS)]
        A = numpy.array([[rng.randint(-4, 4) / 2 for _ in range(N)] for _ in range(N)])
        D = rng.randint(1, 3) if mode == 'dirs' else rng.randint(2, 4)
        P = rng.randint(2, 3) if mode == 'dirs' else rng.randint(1, 2)
        x = progs.rand_utpm_data(rng, D, P, N)
        k = rng.randrange(P) if mode == 'dirs' else rng.randint(1, D - 1)
        rep.count('driver:function', name); rep.count('driver:P', P); rep.count('driver:D', D)
        rep.case(('driver', name, A.tobytes().hex(), x.tobytes().hex(), k), True, sample=dict(check='cg.jacobian(UTPM)', function=name, D=D, P=P, restriction=k))
        payload = dict(kind='driver', mode=mode, function=name, A=A.tolist(), x=x.tolist(), restriction=k)
        try:
            cg = ap.CGraph(); fx = ap.Function(ap.UTPM(x[:1, :1].copy())); fy = f(ap, A, fx); cg.trace_off()
            cg.independentFunctionList = [fx]; cg.dependentFunctionList = [fy]
            full = numpy.array(cg.jacobian(ap.UTPM(x.copy())).data, copy=True)
            sub = numpy.array(cg.jacobian(ap.UTPM(cut(x, mode, k).copy())).data, copy=True)
            plain = numpy.array(cg.jacobian(x[0, 0].copy()), copy=True)
        except Exception as e:
            rep.violation('%s:driver:exception' % mode, 'cg.jacobian with a UTPM argument raises %r' % (e,), dict(payload, exc=repr(e)))
            continue
        why = prog_close(full, sub, mode, k, 1e-9)
        if why:
            rep.violation('%s:driver:jacobian' % mode, 'cg.jacobian(UTPM) of %s on %s: %s' % (name, what, why), dict(payload, why=why))
        elif plain.shape != full.shape[2:] or not numpy.allclose(full[0, 0], plain, rtol=1e-9, atol=1e-9):
            rep.violation('%s:driver:jacobian:base' % mode, 'cg.jacobian(UTPM) of %s: coefficient 0 of direction 0 is not the Jacobian at that base point' % name, payload)


def replay(pid, mode, path):
    pl = json.load(open(path))
    algopy = lib.import_algopy()
    rep = Report(pid, 'quick', pl.get('seed', 0))
    if pl.get('kind') == 'driver':
        f = dict(VEC_FUNCS)[pl['function']]; A = numpy.array(pl['A']); x = numpy.array(pl['x']); k = pl['restriction']
        rep.case('replay', True, sample=dict(check='cg.jacobian(UTPM)', restriction=k))
        try:
            cg = algopy.CGraph(); fx = algopy.Function(algopy.UTPM(x[:1, :1].copy())); fy = f(algopy, A, fx); cg.trace_off()
            cg.independentFunctionList = [fx]; cg.dependentFunctionList = [fy]
            full = numpy.array(cg.jacobian(algopy.UTPM(x.copy())).data, copy=True)
            sub = numpy.array(cg.jacobian(algopy.UTPM(cut(x, mode, k).copy())).data, copy=True)
            why = prog_close(full, sub, mode, k, 1e-9)
        except Exception as e:
            why = repr(e)
        if why:
            rep.violation(pl.get('key', 'replay'), why, dict(pl, why=why))
        return rep.finish()
    if pl.get('kind') == 'program':
        x = numpy.array(pl['x']); ybars = [numpy.array(y) for y in pl['ybar']]
        rep.case('replay', True, sample=dict(check='program', restriction=pl['restriction']))
        try:
            bad = program_check(algopy, pl['prog'], x, ybars, mode, pl['restriction'])
        except Exception as e:
            bad = [('exception', repr(e))]
        for side, why in bad:
            rep.violation(pl.get('key', 'replay'), why, dict(pl, why=why, side=side))
        return rep.finish()
    if pl.get('kind') in ('restriction', 'exception') and 'case' in pl:
        case = pl['case']; k = pl['restriction']
        op = ops.OPS[case['op']]
        inputs = [numpy.array(x, dtype=float) for x in case['inputs']]
        try:
            full = op.run(algopy, case, inputs)
            sub = op.run(algopy, case, restrict(inputs, mode, k))
            ok, dev, why = compare(full, sub, mode, k)
        except Exception as e:
            ok, why = False, repr(e)
        rep.case('replay', True, sample=dict(op=case['op'], restriction=k))
        if not ok:
            rep.violation(pl.get('key', 'replay'), why, dict(kind='restriction', mode=mode, case=case, restriction=k, why=why))
    else:
        rep.theorems()
    return rep.finish()
