"""Regenerates /verif/MANIFEST.json from the table below (run after adding a property check)."""
import json, os, sys
VERIF = os.path.dirname(os.path.dirname(os.path.abspath(__file__)))
props = [json.loads(l) for l in open(os.path.join(VERIF, 'properties.jsonl'))]

NOTE_COMMON = ('Trusted: Coq 8.16.1 kernel + vm_compute, mathcomp 1.15; the hand-written Gallina model and its tie to /repo by the '
               'correspondence check run here (generated cases, model evaluated by vm_compute over exact rationals, floats shipped as exact '
               'dyadics); float64 rounding and NumPy/SciPy/LAPACK base-point primitives are modelled as exact inputs, not verified. ')

CLAIMED = {
 'C01': dict(
   text='Theorems (every field of characteristic 0, every D, every input series; closed under the global context): each coefficient '
        'recurrence of the model (exp, log, real/integer powers, sqrt, reciprocal, square, sin/cos, tan, arcsin/arccos, arctan, sinh/cosh, '
        'tanh, the derivative-convolution helper behind expm1/log1p/erf/erfi/logit/expit, the Faa-di-Bruno helper behind '
        'gammaln/psi/polygamma/hyperu, the ODE helper behind dawsn) returns exactly the coefficients of the formal composition F o (x - x0) '
        'for any F satisfying the function\'s defining differential-algebraic relation (specification side: mathcomp polynomials, no '
        'recurrence). The model follows algorithms.py line by line and is compared with the implementation on every run: 28 functions x '
        'call routes x D x P x shapes x coefficient patterns, every (direction, element) series evaluated by vm_compute over exact rationals.',
   note=NOTE_COMMON + 'Base values f(x0), f^(n)(x0) come from NumPy/SciPy (not proved); the step from formal composition to the analytic '
        'Taylor expansion of f(x(t)) is classical analysis, not formalised; complex coefficients are not generated.',
   technique='Coq proof (strong induction against mathcomp polynomial composition) + model/implementation correspondence by vm_compute',
   design='4/C01'),
 'C02': dict(
   text='Theorems (all D, all series): the model kernels compute the Cauchy product, the unique quotient z with z*y = x mod t^D, the '
        'reciprocal, the square, integer and real powers; NumPy right-aligned broadcasting rule of the operator layer is symmetric/reflexive. '
        'The operator layer (operand kinds, reflected and in-place forms, aliasing, broadcasting incl. constant arrays of higher rank, dtype '
        'promotion) is compared on every run against the Coq model (real cases over Qc, complex cases over the Gaussian rationals Q(i), a field '
        'built and proved in QciField.v: C02_Qci_carrier) AND an independent exact Gaussian-rational reference '
        '(all cases, tolerance 0 where float64 is exact).',
   note=NOTE_COMMON + 'float32 operands are decided by the exact Python reference only; dtype promotion is a NumPy '
        'runtime fact decided by value comparison.',
   technique='Coq proof of the ring kernels + exact differential testing of the operator layer (Coq model and Fraction reference)',
   design='4/C02'),
 'C03': dict(
   text='Theorem (every commutative ring of values -- so with K[t]/(t^D) every Taylor order at once --, every well-formed tape with arithmetic, '
        'unary functions with arbitrary derivative tables, powers, buffers, views and in-place writes incl. y[k] = view of y[k], every input, '
        'direction and seed; closed under the global context): the reverse sweep of the model (adjoint heap mirroring the value heap, restore '
        'step after the pullback of an in-place write) is the transpose of the forward tangent sweep, sum_i xbar_i dx_i = sum_j ybar_j '
        '(F\'(x) dx)_j; the EXECUTABLE instance run by vm_compute (coefficient lists of length D over a field, series kernels) is proved to '
        'refine the ring instance at {poly K} modulo X^D for every tape, so the identity holds for it at every Taylor order d < D '
        '(C03_exec_adjoint, C03_exec_grad_refines); the setitem pullback as it stood before the repair is refuted by a kernel-checked witness (this refutation, produced by '
        'the failed proof attempt, exposed a real defect that was then repaired). Array-level rules (every commutative ring, all sizes): the '
        'reverse rules of dot, outer, inv, solve, trace, transpose, det and logdet as coded are the transposes, for the pairing tr(A^T B), of the '
        'differentials, and the differentials are justified by first-order expansions with a nilpotent scalar, including Jacobi\'s formula '
        'det(A + eps V) = det A + eps tr(adj(A) V); the executable rules over series of list matrices are their Cauchy products; the reverse rules of '
        'lu, cholesky, qr (square and tall reduced) and eigh (distinct eigenvalues) are the adjoints for all tangent tuples satisfying the linearised defining equations; '
        'reductions and replications (all shapes, axes, repetition patterns): gather and scatter-add with the same in-range index list are transposed maps, hence pb_sum (axis / all), pb_tile, pb_diag and the scatter along the index list of x[ix] (any basic index expression), of a transposition (any axis permutation), of a reshape and of NumPy broadcasting (any compatible shapes; summing the adjoint over the broadcast axes) are the adjoints of sum, tile, diag, indexing, transposition and reshape on every coefficient slice and, by bilinearity of the Cauchy pairing, at every order. On every run: the adjoint identity on the implementation for '
        'generated programs (F\'v from forward propagation alone, evaluation point != recording point, D<=4, P<=3, all orders), every xbar '
        'coefficient of rational scalar programs with buffers against the Coq model, UTPM.pb_dot / pb_inv / pb_solve / pb_lu / pb_cholesky / pb_qr called directly against the '
        'executable rules (exact over Qc), UTPM.pb_sum / pb_tile / pb_diag / pb_trace called directly (fresh and accumulating) and through the tracer against the proved rules of Reduce.v (equality over Qc), reverse sweeps through recorded views and through broadcasting arithmetic against the scatter(-add) along the model index lists, and documented unsupported operations raising.',
   note=NOTE_COMMON + 'The array-level rules are proved one by one (dot, outer, inv, solve, trace, transpose, det, logdet), not as part of the tape theorem; the pullbacks of svd, eig, full / wide qr, eigh with repeated eigenvalues and fft are covered by the adjoint-identity predicate only.',
   technique='Coq proof (potential-function invariant over the tape with heaps) + adjoint-identity predicate on the implementation + model correspondence',
   design='4/C03'),
 'C04': dict(
   text='Theorems: gradient / Jacobian rows / vector-Jacobian products of the model pair with every direction to the forward tangent '
        '(corollaries of the adjoint theorem, any ring of values, hence Hessian information over K[t]/(t^2) and Taylor expansions of Jacobian '
        'entries over K[t]/(t^D)); replay IS direct evaluation at the new point, so results depend on the evaluation point only; sweeping '
        'with the cells saved at the recording point (the unrepaired behaviour) is refuted by a kernel-checked witness. On every run: all 8 '
        'drivers at points different from the recording point, graphs recorded from ndarray or UTPM, against the forward-mode drivers; '
        'integer polynomial programs (with buffers) at integer points against the exact derivatives of the Coq model with tolerance 0; '
        'jacobian(UTPM) against forward propagation.',
   note=NOTE_COMMON + 'The forward-mode drivers used as reference are decided by C09/C01.',
   technique='Coq proof (corollaries of the reverse-sweep adjoint theorem; replay = evaluation) + exact correspondence + forward-mode cross-check',
   design='4/C04'),
 'C05': dict(
   text='Theorems (every commutative ring of values, every well-formed program with buffers/views/in-place writes, every input; closed '
        'under the global context): recording appends exactly the nodes of the executed operations, numbered in execution order, each '
        'after its operands (wf_tape of the recorded tape); replaying the recorded tape on ANY input equals running the program directly; '
        'replay has no hidden state; the same for the executable series instance at every Taylor order, which refines the ring instance '
        '(C05_exec_replay_is_eval, C05_exec_replay_refines, C05_exec_record_commutes). On every run: values through tracer nodes vs the program on unwrapped operands, replays with unrelated '
        'inputs (ndarray / UTPM any D,P) vs direct evaluation, nothing recorded while tracing is off, and for rational programs the '
        'recorded tape (names, argument ids) and replay values against the Coq model Tracer.v exactly.',
   note=NOTE_COMMON + 'The Coq tracer model covers scalar programs with buffers over + - * / neg pow square reciprocal; array-level operations are covered by the direct predicates only. Python object identity is outside the model.',
   technique='Coq proof (simulation between recording+replay and direct evaluation) + correspondence of tapes and values + direct predicates',
   design='4/C05'),
 'C06': dict(
   text='Theorems (every well-formed tape with buffers, every input and seeds): the reverse sweep rolls every in-place write back (value '
        'heap = initial heap); the repaired sweep re-applies the recorded writes and leaves exactly the state of the forward evaluation; '
        'hence a sweep after any earlier sweeps equals the sweep on a fresh evaluation; replay depends on tape and inputs only; the same '
        'for the executable series instance and in fact for an arbitrary carrier with arbitrary operations (C06_exec_*; no algebraic law is used). On every '
        'run: random call histories (forward evaluations of any kind/D/P, reverse sweeps, six drivers, evaluating and recording other '
        'graphs, repetitions), every result compared with the same call on a freshly recorded graph, and node values snapshotted around '
        'every reverse sweep.',
   note=NOTE_COMMON + 'The oracle of a call is the implementation on a fresh graph (its correctness is C03/C04/C05); user-object aliasing is outside the model.',
   technique='Coq proof (heap rollback/rollforward invariants over the tape) + history differential testing against fresh graphs',
   design='4/C06'),
 'C07': dict(
   text='Theorems (every field, every D, sizes, closed under the global context): the matrix kernels are written once over abstract '
        'operations; instantiated with mathcomp matrices they satisfy X(t)Y(t) Cauchy product, A(t) inv(A)(t) = I = inv(A)(t) A(t) (over any '
        'ring) and A(t) X(t) = B(t) modulo t^D; the executable list-matrix instance refines the mathcomp instance (morphism lemmas and '
        'transfer), so the same identities hold for the terms vm_compute runs; det via LU (piv2det * prod diag U, the executable luU and '
        'detU kernels end to end) is the Leibniz determinant of the polynomial matrix modulo X^D (C07_detU_luU_is_det), and logdet on the same '
        'LU factors satisfies det * logdet\' = det\' modulo t^(D-1) in characteristic 0 (C07_logdetU_luU_spec). On every run: the implementation against the Coq model '
        '(dot, inv, solve in three operand mixes, base inverses from NumPy as the implementation takes them) and exact-rational predicates on '
        'the implementation output: numpy.dot/outer on exact series objects for every rank combination and operand mix, residuals of '
        'A inv(A) = I and A X = B, Leibniz determinant, det * logdet\' = det\', trace; expm at orders 0 and 1 against SciPy.',
   note=NOTE_COMMON + 'expm has no theorem (validated per case against exact predicates); closeness of the Pade approximant to expm is numerical analysis.',
   technique='Coq proof over abstract rings + refinement of executable list matrices to mathcomp matrices + correspondence and exact residual predicates',
   design='4/C07'),
 'C08': dict(
   text='Theorems (every field with 2 != 0, every size, every D, all higher coefficients; closed under the global context): the Cholesky, '
        'pivoted LU and square QR recurrences of the model satisfy L L^T = A (L_d lower), L U = w^T A (L unit lower, U upper, constant '
        'permutation), Q R = A, Q^T Q = I (R upper) modulo t^D whenever the base factors satisfy them at order 0; the executable list-matrix '
        'kernels luU/cholU/qrU refine these instances (C08_*_refines); the reduced QR of a TALL matrix polynomial (m x n, the M > N branch of '
        '_qr_rectangular) satisfies the same three statements for every m, n, D and its executable kernel refines it (C08_qrtM_spec, C08_qrtU_refines); the '
        'symmetric eigenvalue decomposition with DISTINCT base eigenvalues (_eigh1 step by step: truncated triple product, S, K, diagonal part, Hadamard '
        'product with H) satisfies Q^T Q = I and Q^T A Q = Lambda, Lambda diagonal, modulo t^D for every size and D, and its executable kernel '
        'refines it (C08_eighM_spec, C08_eighU_refines); the FULL QR (Q m x m, R m x n upper trapezoidal; the kernel shared by qr_full and svd) '
        'satisfies Q R = A, Q^T Q = I, R upper trapezoidal modulo t^D for all n <= m, D, with refinement of its executable kernel (C08_qrfM_spec, '
        'C08_qrfU_refines); the re-orthonormalisation helper lift_Q used for repeated eigenvalues keeps Q^T Q = I at every order (C08_liftQ_spec). On every run: the '
        'implementation against the Coq models (base factors from NumPy/SciPy as the implementation takes them) and, for EVERY factorization '
        '(qr reduced square/tall/wide, qr_full, cholesky, lu, eigh with distinct and exactly repeated base eigenvalues incl. splitting at '
        'order 2, eig D<=2, svd square/tall/wide), the defining equations, triangular structure, ordering and base-point factors evaluated '
        'with exact rational series arithmetic on the implementation output.',
   note=NOTE_COMMON + 'qr of wide matrices, eigh with REPEATED base eigenvalues (the block splitting around the proved lift_Q and distinct-eigenvalue step), eig and svd have no Coq model: their defining equations are validated per case (not a proof), over a scheduled sweep of all (degree, splitting order) pairs; LAPACK base factorizations are inputs.',
   technique='Coq proof of the lifting steps over mathcomp matrices (kernels shared with the executable list-matrix instance) + correspondence + exact residual predicates',
   design='4/C08'),
 'C09': dict(
   text='Theorems (every N, every field with 2 != 0): the N(N+1)/2 seed directions of init_hessian are e_n and e_n+e_m at the modelled '
        'indices, and extract_hessian / extract_hess_vec / extract_jacobian applied to the second/first-order coefficients of any quadratic/'
        'linear form return H, Hv, g exactly (triangular index arithmetic for all N). Tensor extraction rests on the bounded interpolation '
        'identity of C15. On every run: seeds and extraction formulas against the Coq model exactly; integer polynomial programs at integer '
        'points against analytic derivatives from exact multivariate polynomial arithmetic (all drivers incl. tensors d<=3/4, tolerance 0 '
        'where float64 is exact, also with an integer-dtype seed); smooth programs: mutual consistency of all drivers.',
   note=NOTE_COMMON + 'That coefficient d along x+ts is the d-th directional derivative/d! is C01/C12 (chain rule, not re-proved here); the interpolation identity behind init_tensor/extract_tensor is proved for all N, d (C15).',
   technique='Coq proof (index arithmetic of seeds/extraction for all N) + exact polynomial oracle + correspondence',
   design='4/C09'),
 'C10': dict(
   text='Theorems: for every model kernel the zeroth coefficient of the result is the base operation applied to the zeroth coefficients '
        '(ring operation, or the base value handed in from NumPy/SciPy), and result shapes are NumPy broadcast shapes. NumPy itself is the '
        'oracle for the base operations, so the larger half is an enumeration on every run: every registered operation against the '
        'NumPy/SciPy call on x.data[0,p] in every direction, shape/ndim/size/len, the truth value of < <= > >= == against UTPM/scalar/'
        'ndarray operands, and ~90 algopy-level functions called with plain arrays against NumPy/SciPy bit-wise.',
   note=NOTE_COMMON + 'Claimed at level proof only for the modelled half (zeroth-coefficient and shape theorems); agreement with NumPy is enumeration, comparisons are not modelled in Coq.',
   technique='Coq proof (zeroth-coefficient / shape lemmas) + enumeration against NumPy/SciPy as oracle',
   design='4/C10'),
 'C11': dict(
   text='Theorems (every kernel, every P, all shapes): in the model a polynomial with P directions is a list of P independent blocks; '
        'restricting the operands of any element-wise function, broadcasting binary operation or shape manipulation to direction p and '
        'operating gives direction p of the full result (so no information flows between directions); for WHOLE PROGRAMS the executable '
        'tracer instance lifted to P direction blocks with their own base points computes in block p -- forward evaluation, replay, tangent sweep '
        'and the adjoints of the reverse sweep -- exactly what the one-direction instance computes from block p of inputs, constants and seeds '
        '(C11_program_*_dir, C11_program_*_no_flow). On every run the property is '
        'evaluated directly on the implementation (each registered operation on the full input vs on each single direction, different base '
        'points per direction, constants shaped like the direction axis) and the implementation is tied to the model on the restricted runs.',
   note=NOTE_COMMON + 'Direction independence of the model is by its per-direction structure; that the implementation has this structure is '
        'what the run checks. Matrix kernels/factorizations and the reverse sweep join the operation registry as their models are built.',
   technique='Coq proof (per-direction structure of the model) + direct predicate on the implementation + correspondence',
   design='4/C11'),
 'C12': dict(
   text='Theorems (every field, every D, every n <= D): all recurrences are course-of-values recursions, so the first n output '
        'coefficients equal the output computed from inputs truncated to n coefficients -- proved generically for the recursion '
        'combinators and for each kernel (add, sub, mul, square, div, reciprocal, sqrt, real power, exp, log, sin/cos, sinh/cosh, tan, tanh, '
        'arcsin/arccos, arctan, the derivative-convolution helper, expm1); D=1 gives the plain value. On every run the property is '
        'evaluated directly on the implementation for every registered operation and every D\' < D.',
   note=NOTE_COMMON + 'The reverse-sweep analogue and the eigh bookkeeping are covered by the direct predicate only once their operations are registered.',
   technique='Coq proof (prefix lemmas for the recursion combinators and every kernel) + direct predicate on the implementation + correspondence',
   design='4/C12'),
 'C13': dict(
   text='Theorems (all shapes, index expressions, D, P): python slice.indices model selects in-range distinct indices; basic indexing '
        '(ints, negative ints, slices with steps, Ellipsis, newaxis, tuples) yields duplicate-free in-range offsets (a view selects distinct '
        'parent cells); applying an index map to a polynomial acts on every (d,p) coefficient slice identically; writing through a view '
        'changes exactly the selected cells and reading back returns what was written; constant assignment sets order 0 and clears higher '
        'orders; reshape never moves data; double transposition is the identity; sum over an axis and sum of everything are scatter-adds whose element j is the sum over the fibre of j, and the index lists of sum / tile / diag computed from the shapes are in range for every shape, axis and repetition pattern. triu / tril of any n x m matrix and offset keep exactly the entries on the right side of the k-th diagonal, triu(k) + tril(k-1) = x, masking is idempotent. On every run: sum(axis) / x.sum() / tile / diag (both directions) / triu / tril (every offset, all orientations) / trace against the Coq models Reduce.v and Mask.v exactly on every coefficient slice; offsets selected by x[ix] (read off from '
        'self-describing data) against the Coq gather, exactly; slice.indices exhaustively on a small range; every operation against NumPy '
        'applied to each coefficient slice; shares_memory and write-through against NumPy.',
   note=NOTE_COMMON + 'numpy.shares_memory is a runtime fact; conj/real/imag/fft are decided by the slice-wise NumPy predicate only.',
   technique='Coq proof (gather/scatter index maps) + exact correspondence of index maps + slice-wise NumPy predicate',
   design='4/C13'),
 'C14': dict(
   text='Theorems (every field, every D): store-passing models of the product kernel with its output aliased to either or both operands, and '
        'of the in-place product x *= y, compute the Cauchy product; the repaired x *= x is correct whether or not the operands share '
        'memory, and the loop as it stood before the fix is refuted by a kernel-checked witness; in-place division through a temporary is '
        'correct for every aliasing pattern of output, numerator and denominator, the direct loop is correct without aliasing and with '
        'out = numerator and refuted (kernel-checked witness) with out = denominator. On every run: byte-wise snapshots of every '
        'argument around every registered operation, x op x / x op= x / x op= view(x) against independent copies (exact), the kernels '
        'against the Coq store model (exact), and input/seed objects around recording and reverse sweeps.',
   note=NOTE_COMMON + 'Whether a NumPy call mutates a caller buffer is a runtime fact decided by the snapshots, not by a theorem.',
   technique='Coq proof (loop invariants of store-passing models with aliasing) + runtime snapshots + exact differential testing',
   design='4/C14'),
 'C15': dict(
   text='Theorems (all N>=1, all d, closed under the global context): the multi-index enumeration contains every multi-index of degree d '
        'exactly once. Bounded theorem by kernel reflection over exact rationals: the interpolation identity sum_j Gamma[i,j] ray_j^a = '
        'delta(i,a) for EVERY N >= 1 and d >= 1 over every field of characteristic 0, including termination of the gamma loop within its fuel '
        '(C15_interpolation_identity; the Griewank-Utke-Walther identity re-proved from finite differences of monomials, the multi-index '
        'Vandermonde convolution, Stirling numbers and an odometer argument); the earlier reflection proof for N<=4, d<=5 is kept. '
        'The model follows exact_interpolation.py loop by loop and is compared with it on every run: multi-index lists, positions, '
        'increment, generalized binomials, Gamma and rays; the identity is re-evaluated with Fractions on the implementation output.',
   note=NOTE_COMMON + 'The interpolation identity is proved for the seed matrix S = identity (rays = multi-indices), the default the drivers use; a user-supplied S is covered by the per-case predicate only.',
   technique='Coq proof (induction; bounded reflection) + model/implementation correspondence by vm_compute',
   design='4/C15'),
 'C16': dict(
   text='Theorems (Coq reals + Coquelicot; all n, all points of the declared domain): for exp, exp2, expm1, log, log2, log10, log1p, sqrt, '
        'square, negative, reciprocal, sin, cos, sinh, cosh, arctanh, erf, erfi (erf defined as the integral; every real x incl. 0) the closed form of order n+1 is the derivative of the closed form of '
        'order n and order 0 is the function, hence the closed form IS the n-th derivative (nth_derivative_of_chain). On every run the '
        'real-valued model is evaluated inside Coq by certified interval arithmetic at the points where the implementation is run '
        '(|model - implementation| <= 1e-9 relative proved per case), and every exported function (also arcsin, arccos, arctan, '
        'arcsinh, arccosh, gammaln, psi, polygamma, hyperu, piecewise ones) is compared with mpmath numerical differentiation at 50 digits.',
   note='Axioms: ClassicalDedekindReals.sig_forall_dec, sig_not_dec, FunctionalExtensionality.functional_extensionality_dep, Classical_Prop.classic (standard library reals / Coquelicot). '
        'Functions without a Coq model (inverse trigonometric/hyperbolic, gamma family, hyperu) are decided against mpmath only; tan/tanh need mpmath inside the repository interpreter and are outside the property list.',
   technique='Coq proof over the reals (Coquelicot is_derive) + certified interval evaluation of the model per case + mpmath oracle',
   design='4/C16'),
 'C17': dict(
   text='Theorems (all N, all shapes/values unless a bound is stated): applying the row interchanges of a pivot vector = indexing with '
        'piv2swap; piv2swap is a permutation; piv2mat^T A is A after the interchanges; det(piv2mat piv) (mathcomp determinant) = piv2det piv; '
        'symvec(vecsym v) = v and vecsym(symvec A) = A resp. (A+A^T)/2 for all three storage conventions; shift by s then -s preserves the '
        'retained coefficients; base+directions <-> polynomial axis permutations are mutually inverse for EVERY D, P and shape (C17_base_dirs_roundtrip), '
        'as an instance of: transposition by any axis permutation followed by the inverse permutation is the identity (C17_transpose_inverse). On every run: every pivot vector for N<=4 (5 thorough) realised through scipy.linalg.lu_factor with '
        'P L U = A and det checks, all helpers against the Coq model exactly, bit-wise round trips.',
   note=NOTE_COMMON + 'LAPACK getrf contract trusted and checked per case; nested containers (as_utpm, ndarray2utpm) are decided by the element-wise predicate only.',
   technique='Coq proof (mathcomp permutations/determinant, list index arithmetic) + exact correspondence',
   design='4/C17'),
}
PENDING_REASON = 'check not built yet in this revision (see DESIGN.md section 4 for the plan); nothing is claimed for it'

checks, na = [], []
for p in props:
    pid = p['id']
    if pid in CLAIMED:
        c = CLAIMED[pid]
        checks.append(dict(
            property_id=pid,
            quick_cmd='./check %s --tier quick' % pid,
            thorough_cmd='./check %s --tier thorough' % pid,
            evidence_file='/verif/evidence/%s.json' % pid,
            replay_cmd_template='./check %s --replay {path}' % pid,
            engine='coq-model+correspondence',
            level_claimed=dict(category='proof', text=c['text'], design_ref='DESIGN.md ' + c['design']),
            level_note=c['note'],
            technique=c['technique']))
    else:
        na.append(dict(property_id=pid, reason=PENDING_REASON))

man = dict(
    version=1,
    setup_cmd='cd coq && coq_makefile -f _CoqProject -o Makefile && timeout 3000 make -j16',
    hooks=dict(guard='ALGOPY_VERIF', enable='no source hooks are needed: all observation points are public attributes; the guard name is reserved and unused',
               baseline_off_cmd='cd /repo && /venv/bin/python -m pytest -ra -q -p no:cacheprovider --timeout=900 --continue-on-collection-errors',
               source_commits=[], add_only=True),
    engines=[dict(name='coq-model+correspondence', path='/verif/check',
                  serves_properties=[c['property_id'] for c in checks],
                  kind_free_text='Coq 8.16.1 development in /verif/coq (models + theorems, full .vo build) and a Python harness that runs the real '
                                 'implementation from /repo and the model (vm_compute inside coqc) on the same generated cases')],
    checks=checks,
    notes='See DESIGN.md. known_findings.json lists genuine defects (known / fixed).',
    not_applicable=na)
json.dump(man, open(os.path.join(VERIF, 'MANIFEST.json'), 'w'), indent=1)
print('claimed:', [c['property_id'] for c in checks], 'pending:', len(na))
