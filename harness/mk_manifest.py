"""Regenerates /verif/MANIFEST.json from the table below (run after adding a property check)."""
import json, os, sys
VERIF = os.path.dirname(os.path.dirname(os.path.abspath(__file__)))
props = [json.loads(l) for l in open(os.path.join(VERIF, 'properties.jsonl'))]

NOTE_COMMON = ('Trusted: Coq 8.16.1 kernel + vm_compute, mathcomp 1.15; the hand-written Gallina model and its tie to /repo by the '
               'correspondence check run here (generated cases, model evaluated by vm_compute over exact rationals, floats shipped as exact '
               'dyadics); float64 rounding and NumPy/SciPy/LAPACK base-point primitives are modelled as exact inputs, not verified. ')

CLAIMED = {
 'C01': dict(
   text='Theorems (every field of characteristic 0, every D, every input series; closed under the global context): each coefficient '
        'recurrence of the model (exp, log, real/integer powers, sqrt, reciprocal, square, sin/cos, tan, arcsin/arccos, arctan, sinh/cosh, '
        'tanh, the derivative-convolution helper behind expm1/log1p/erf/erfi/logit/expit, the Faa-di-Bruno helper behind '
        'gammaln/psi/polygamma/hyperu, the ODE helper behind dawsn) returns exactly the coefficients of the formal composition F o (x - x0) '
        'for any F satisfying the function\'s defining differential-algebraic relation (specification side: mathcomp polynomials, no '
        'recurrence). The model follows algorithms.py line by line and is compared with the implementation on every run: 28 functions x '
        'call routes x D x P x shapes x coefficient patterns, every (direction, element) series evaluated by vm_compute over exact rationals.',
   note=NOTE_COMMON + 'Base values f(x0), f^(n)(x0) come from NumPy/SciPy (not proved); the step from formal composition to the analytic '
        'Taylor expansion of f(x(t)) is classical analysis, not formalised; complex coefficients are not generated.',
   technique='Coq proof (strong induction against mathcomp polynomial composition) + model/implementation correspondence by vm_compute',
   design='4/C01'),
 'C02': dict(
   text='Theorems (all D, all series): the model kernels compute the Cauchy product, the unique quotient z with z*y = x mod t^D, the '
        'reciprocal, the square, integer and real powers; NumPy right-aligned broadcasting rule of the operator layer is symmetric/reflexive. '
        'The operator layer (operand kinds, reflected and in-place forms, aliasing, broadcasting incl. constant arrays of higher rank, dtype '
        'promotion) is compared on every run against the Coq model (real cases) AND an independent exact Gaussian-rational reference '
        '(all cases, tolerance 0 where float64 is exact).',
   note=NOTE_COMMON + 'Complex operands are decided by the exact Python reference only (Coq model runs over Qc); dtype promotion is a NumPy '
        'runtime fact decided by value comparison.',
   technique='Coq proof of the ring kernels + exact differential testing of the operator layer (Coq model and Fraction reference)',
   design='4/C02'),
 'C11': dict(
   text='Theorems (every kernel, every P, all shapes): in the model a polynomial with P directions is a list of P independent blocks; '
        'restricting the operands of any element-wise function, broadcasting binary operation or shape manipulation to direction p and '
        'operating gives direction p of the full result (so no information flows between directions). On every run the property is '
        'evaluated directly on the implementation (each registered operation on the full input vs on each single direction, different base '
        'points per direction, constants shaped like the direction axis) and the implementation is tied to the model on the restricted runs.',
   note=NOTE_COMMON + 'Direction independence of the model is by its per-direction structure; that the implementation has this structure is '
        'what the run checks. Matrix kernels/factorizations and the reverse sweep join the operation registry as their models are built.',
   technique='Coq proof (per-direction structure of the model) + direct predicate on the implementation + correspondence',
   design='4/C11'),
 'C12': dict(
   text='Theorems (every field, every D, every n <= D): all recurrences are course-of-values recursions, so the first n output '
        'coefficients equal the output computed from inputs truncated to n coefficients -- proved generically for the recursion '
        'combinators and for each kernel (add, sub, mul, square, div, reciprocal, sqrt, real power, exp, log, sin/cos, sinh/cosh, tan, tanh, '
        'arcsin/arccos, arctan, the derivative-convolution helper, expm1); D=1 gives the plain value. On every run the property is '
        'evaluated directly on the implementation for every registered operation and every D\' < D.',
   note=NOTE_COMMON + 'The reverse-sweep analogue and the eigh bookkeeping are covered by the direct predicate only once their operations are registered.',
   technique='Coq proof (prefix lemmas for the recursion combinators and every kernel) + direct predicate on the implementation + correspondence',
   design='4/C12'),
 'C14': dict(
   text='Theorems (every field, every D): store-passing models of the product kernel with its output aliased to either or both operands, and '
        'of the in-place product x *= y, compute the Cauchy product; the repaired x *= x is correct whether or not the operands share '
        'memory, and the loop as it stood before the fix is refuted by a kernel-checked witness. On every run: byte-wise snapshots of every '
        'argument around every registered operation, x op x / x op= x / x op= view(x) against independent copies (exact), the kernels '
        'against the Coq store model (exact), and input/seed objects around recording and reverse sweeps.',
   note=NOTE_COMMON + 'Whether a NumPy call mutates a caller buffer is a runtime fact decided by the snapshots, not by a theorem.',
   technique='Coq proof (loop invariants of store-passing models with aliasing) + runtime snapshots + exact differential testing',
   design='4/C14'),
 'C15': dict(
   text='Theorems (all N>=1, all d, closed under the global context): the multi-index enumeration contains every multi-index of degree d '
        'exactly once. Bounded theorem by kernel reflection over exact rationals: the interpolation identity sum_j Gamma[i,j] ray_j^a = '
        'delta(i,a) for 1<=N<=4, 1<=d<=5 (bound in the statement; the unbounded identity is the cited Griewank-Utke-Walther theorem). '
        'The model follows exact_interpolation.py loop by loop and is compared with it on every run: multi-index lists, positions, '
        'increment, generalized binomials, Gamma and rays; the identity is re-evaluated with Fractions on the implementation output.',
   note=NOTE_COMMON + 'Unbounded Gamma identity not proved (bounded N<=4,d<=5).',
   technique='Coq proof (induction; bounded reflection) + model/implementation correspondence by vm_compute',
   design='4/C15'),
}
PENDING_REASON = 'check not built yet in this revision (see DESIGN.md section 4 for the plan); nothing is claimed for it'

checks, na = [], []
for p in props:
    pid = p['id']
    if pid in CLAIMED:
        c = CLAIMED[pid]
        checks.append(dict(
            property_id=pid,
            quick_cmd='./check %s --tier quick' % pid,
            thorough_cmd='./check %s --tier thorough' % pid,
            evidence_file='/verif/evidence/%s.json' % pid,
            replay_cmd_template='./check %s --replay {path}' % pid,
            engine='coq-model+correspondence',
            level_claimed=dict(category='proof', text=c['text'], design_ref='DESIGN.md ' + c['design']),
            level_note=c['note'],
            technique=c['technique']))
    else:
        na.append(dict(property_id=pid, reason=PENDING_REASON))

man = dict(
    version=1,
    setup_cmd='cd coq && coq_makefile -f _CoqProject -o Makefile && timeout 3000 make -j16',
    hooks=dict(guard='ALGOPY_VERIF', enable='no source hooks are needed: all observation points are public attributes; the guard name is reserved and unused',
               baseline_off_cmd='cd /repo && /venv/bin/python -m pytest -ra -q -p no:cacheprovider --timeout=900 --continue-on-collection-errors',
               source_commits=[], add_only=True),
    engines=[dict(name='coq-model+correspondence', path='/verif/check',
                  serves_properties=[c['property_id'] for c in checks],
                  kind_free_text='Coq 8.16.1 development in /verif/coq (models + theorems, full .vo build) and a Python harness that runs the real '
                                 'implementation from /repo and the model (vm_compute inside coqc) on the same generated cases')],
    checks=checks,
    notes='See DESIGN.md. known_findings.json lists genuine defects (known / fixed).',
    not_applicable=na)
json.dump(man, open(os.path.join(VERIF, 'MANIFEST.json'), 'w'), indent=1)
print('claimed:', [c['property_id'] for c in checks], 'pending:', len(na))
