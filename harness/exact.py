"""Exact reference arithmetic used as the model-free predicate: truncated power series over Q or Q[i]
(Python Fractions), broadcast by NumPy object arrays.  Independent of both AlgoPy and the Coq model."""
from fractions import Fraction
import numpy
import lib


class Cx:
    """Gaussian rational"""
    __slots__ = ('re', 'im')

    def __init__(self, re=0, im=0):
        self.re, self.im = Fraction(re), Fraction(im)

    @staticmethod
    def of(v):
        if isinstance(v, Cx):
            return v
        if isinstance(v, (complex, numpy.complexfloating)):
            return Cx(lib.frac(v.real), lib.frac(v.imag))
        return Cx(lib.frac(v), 0)

    def __add__(s, o): o = Cx.of(o); return Cx(s.re + o.re, s.im + o.im)
    __radd__ = __add__
    def __sub__(s, o): o = Cx.of(o); return Cx(s.re - o.re, s.im - o.im)
    def __rsub__(s, o): return Cx.of(o) - s
    def __neg__(s): return Cx(-s.re, -s.im)
    def __mul__(s, o): o = Cx.of(o); return Cx(s.re * o.re - s.im * o.im, s.re * o.im + s.im * o.re)
    __rmul__ = __mul__
    def __truediv__(s, o):
        o = Cx.of(o); n = o.re * o.re + o.im * o.im
        return Cx((s.re * o.re + s.im * o.im) / n, (s.im * o.re - s.re * o.im) / n)
    def __rtruediv__(s, o): return Cx.of(o) / s
    def __eq__(s, o): o = Cx.of(o); return s.re == o.re and s.im == o.im
    def __hash__(s): return hash((s.re, s.im))
    def iszero(s): return s.re == 0 and s.im == 0
    def absmax(s): return max(abs(s.re), abs(s.im))
    def __repr__(s): return 'Cx(%s,%s)' % (s.re, s.im)


class PS:
    """truncated power series with Cx coefficients"""
    __slots__ = ('c',)

    def __init__(self, coeffs):
        self.c = [Cx.of(v) for v in coeffs]

    @staticmethod
    def const(v, D):
        return PS([v] + [0] * (D - 1))

    def _co(self, o):
        return o if isinstance(o, PS) else PS.const(o, len(self.c))

    def __add__(s, o): o = s._co(o); return PS([a + b for a, b in zip(s.c, o.c)])
    __radd__ = __add__
    def __sub__(s, o): o = s._co(o); return PS([a - b for a, b in zip(s.c, o.c)])
    def __rsub__(s, o): return s._co(o) - s
    def __neg__(s): return PS([-a for a in s.c])
    def __mul__(s, o):
        o = s._co(o); D = len(s.c)
        return PS([sum((s.c[k] * o.c[d - k] for k in range(d + 1)), Cx()) for d in range(D)])
    __rmul__ = __mul__
    def __truediv__(s, o):
        o = s._co(o); D = len(s.c); z = []
        for d in range(D):
            acc = s.c[d]
            for k in range(d):
                acc = acc - z[k] * o.c[d - k]
            z.append(acc / o.c[0])
        return PS(z)
    def __rtruediv__(s, o): return s._co(o) / s


def utpm_to_obj(data):
    """(D,P)+shape array -> list over p of object arrays (shape) of PS"""
    data = numpy.asarray(data)
    D, P = data.shape[:2]
    shp = data.shape[2:]
    out = []
    for p in range(P):
        a = numpy.empty(shp, dtype=object)
        for idx in numpy.ndindex(*shp):
            a[idx] = PS([data[(d, p) + idx] for d in range(D)])
        if shp == ():
            a = a[()]
        out.append(a)
    return out


def const_to_obj(c, D):
    """scalar or ndarray constant -> object array / PS of constant series"""
    if isinstance(c, numpy.ndarray):
        a = numpy.empty(c.shape, dtype=object)
        for idx in numpy.ndindex(*c.shape):
            a[idx] = PS.const(c[idx], D)
        return a if c.shape != () else a[()]
    return PS.const(c, D)


def obj_to_coeffs(objs):
    """list over p of object arrays of PS -> (shape, {(d,p,idx): Cx})"""
    first = objs[0]
    shp = first.shape if isinstance(first, numpy.ndarray) else ()
    res = {}
    for p, a in enumerate(objs):
        if shp == ():
            a = numpy.array(a, dtype=object).reshape(())
            a0 = numpy.empty((), dtype=object); a0[()] = objs[p] if not isinstance(objs[p], numpy.ndarray) else objs[p][()]
            a = a0
        for idx in numpy.ndindex(*shp):
            ps = a[idx]
            for d, c in enumerate(ps.c):
                res[(d, p) + idx] = c
    return shp, res


def compare(impl_data, objs, tol=Fraction(0)):
    """compare implementation coefficient array with exact objects.  Returns None if equal, else a description."""
    impl_data = numpy.asarray(impl_data)
    shp, ref = obj_to_coeffs(objs)
    D = len(next(iter(ref.values())) and [0]) if False else None
    P = len(objs)
    some = objs[0] if not isinstance(objs[0], numpy.ndarray) else objs[0].reshape(-1)[0] if objs[0].size else None
    Dn = len(some.c) if some is not None else impl_data.shape[0]
    want_shape = (Dn, P) + tuple(shp)
    if tuple(impl_data.shape) != want_shape:
        return 'shape %s, expected %s' % (tuple(impl_data.shape), want_shape)
    for key, c in ref.items():
        v = impl_data[key]
        vc = Cx.of(v)
        if not numpy.isfinite(complex(v)):
            return 'non-finite coefficient at %s' % (key,)
        diff = (vc - c).absmax()
        if diff > tol * (1 + c.absmax()):
            return 'coefficient %s is %r, exact value %s%s' % (key, v, float(c.re), ('%+gj' % float(c.im)) if c.im else '')
    return None
