"""C05 -- replaying a recorded graph reproduces the program.
Theorems: Props/C05.v (Tracer.v: recording appends exactly one node per executed operation, in order, after its operands;
replay of the recorded tape = pure evaluation of the program, for every input and any number of replays).
Checks on the implementation: values through tracer nodes vs the program on the unwrapped operands; replay with unrelated
inputs (ndarray / UTPM of any D,P) vs direct evaluation; the recorded tape (names, IDs, argument IDs) vs the tape the Coq model
records for the same program; nothing is recorded while tracing is off."""
import json
import numpy
import lib, progs
import tracer_model as tm
from lib import Report, qlit, qseq, natseq
from fractions import Fraction

PID = 'C05'


def as_data(v):
    """coefficient array of a value (UTPM -> data, ndarray/scalar -> array)"""
    return numpy.asarray(v.data) if hasattr(v, 'data') and not isinstance(v, numpy.ndarray) else numpy.asarray(v)


def same(a, b, rtol=1e-12):
    a, b = as_data(a), as_data(b)
    if a.shape != b.shape:
        return False
    return bool(numpy.all(numpy.abs(a - b) <= rtol * (1 + numpy.abs(b))))


def make_input(ap, rng, N, kind):
    if kind == 'ndarray':
        return progs.rand_point(rng, N), dict(kind='ndarray')
    D = rng.randint(1, 4); P = rng.randint(1, 3)
    return ap.UTPM(progs.rand_utpm_data(rng, D, P, N)), dict(kind='UTPM', D=D, P=P)


def record(ap, prog, x):
    cg = ap.CGraph()
    fx = ap.Function(x)
    fys = progs.run(prog, fx, ap)
    cg.trace_off()
    cg.independentFunctionList = [fx]
    cg.dependentFunctionList = list(fys)
    return cg, fx, fys


def tape_of(cg):
    out = []
    for f in cg.functionList:
        args = []
        for a in f.args:
            args.append(a.ID if hasattr(a, 'ID') and hasattr(a, 'func') else 'c')
        out.append((f.func.__name__, f.ID, args))
    return out


def complex_replay_section(rep, ap, rng, tier):
    """a graph recorded with real values replayed with COMPLEX plain arrays / complex UTPMs (complex-step differentiation, complex
    points): the replay evaluates the program at the complex point, nothing is cast to float on the way"""
    n_rand = 25 if tier == 'quick' else 300
    kern = [(nm, pr) for nm, pr in progs.kernel_programs(rng, ap, reps=1) if nm.startswith(('bin', 'pow'))]
    for it in range(n_rand + len(kern)):
        if it < n_rand:
            prog = progs.gen_prog(rng, ap, nout=1, scalar_only=True)
        else:
            # every operator with a constant on either side, the shortcut-prone constants included, and every power
            prog = kern[it - n_rand][1]
            rep.count('other-dtype replay of kernel program', kern[it - n_rand][0].split(':')[0])
        N = prog['N']
        text = progs.to_text(prog)
        x_rec, rmeta = make_input(ap, rng, N, rng.choice(['ndarray', 'UTPM']))
        try:
            cg, fx, fys = record(ap, prog, x_rec)
        except Exception as e:
            rep.notes.append('recording raised %r' % e); continue
        for kind in ('ndarray_complex', 'complex_step', 'UTPM_complex', 'ndarray_int', 'UTPM_int_coefficients'):
            if kind == 'ndarray_int':
                # integer-valued points given with an INTEGER dtype: 1/x, x/2, x**-1 ... mean what they mean for NumPy integer arrays
                xn = numpy.array([rng.choice([-4, -3, -2, 2, 3, 4, 5]) for _ in range(N)], dtype=int)
            elif kind == 'UTPM_int_coefficients':
                xn = ap.UTPM(numpy.array([[[rng.choice([-4, -3, -2, 2, 3, 4, 5]) for _ in range(N)]] for _ in range(2)], dtype=int))
            elif kind == 'ndarray_complex':
                xn = progs.rand_point(rng, N) + 1j * progs.rand_point(rng, N)
            elif kind == 'complex_step':
                xn = progs.rand_point(rng, N) + 1e-20j * progs.rand_point(rng, N)
            else:
                D = rng.randint(1, 3); P = rng.randint(1, 2)
                xn = ap.UTPM(progs.rand_utpm_data(rng, D, P, N) + 1j * progs.rand_utpm_data(rng, D, P, N))
            rep.count('replayed_with', kind)
            rep.case(('complex-replay', text, kind, repr(as_data(xn).tolist())), True, sample=dict(check='complex replay', kind=kind, program=text[:200]))
            try:
                want = progs.run(prog, xn, ap)
            except Exception as e:
                rep.notes.append('direct complex evaluation raised %r' % e); continue
            try:
                got = cg.function([xn])
            except Exception as e:
                rep.violation('replay:complex:exception', 'replay with %s raises %r' % (kind, e), dict(kind='replay', prog=prog, x_new=repr(as_data(xn).tolist()))); break
            ok = len(got) == len(want)
            for g, w in zip(got, want):
                a, b = numpy.asarray(as_data(g)), numpy.asarray(as_data(w))
                if not (numpy.all(numpy.isfinite(a)) and numpy.all(numpy.isfinite(b))):
                    ok = ok and bool(numpy.array_equal(numpy.isfinite(a), numpy.isfinite(b))); continue
                ok = ok and a.shape == b.shape and bool(numpy.all(numpy.abs(a - b) <= 1e-12 * (1 + numpy.abs(b)))) and \
                    (kind != 'complex_step' or bool(numpy.all(numpy.abs(a.imag - b.imag) <= 1e-12 * (1e-20 + numpy.abs(b.imag)))))
            if not ok:
                rep.violation('replay:value:complex', 'replay with %s differs from running the program directly at the complex point (imaginary parts lost?)' % kind,
                              dict(kind='replay', prog=prog, x_new=repr(as_data(xn).tolist()), got=repr([as_data(g).tolist() for g in got]), want=repr([as_data(w).tolist() for w in want])))
                break


def same_object_section(rep, ap, rng, tier):
    """callers that keep ONE input object and update it in place between evaluations (x -= step * g; u.data[...] = ...), and callers that
    overwrite the array a previous evaluation returned: cg.function with the same object gives the value at its CURRENT contents"""
    import multi
    for it in range(20 if tier == 'quick' else 300):
        prog = progs.gen_prog(rng, ap, nout=1, scalar_only=(it % 2 == 0))
        N = prog['N']
        text = progs.to_text(prog)
        kind = rng.choice(['ndarray', 'UTPM'])
        try:
            cg, fx, fys = record(ap, prog, make_input(ap, rng, N, kind)[0])
        except Exception as e:
            rep.notes.append('recording raised %r' % e); continue
        x = progs.rand_point(rng, N) if kind == 'ndarray' else ap.UTPM(progs.rand_utpm_data(rng, 2, 2, N))
        for step in range(3):
            rep.count('same object replayed', kind)
            rep.case(('same-object', text, kind, step, repr(as_data(x).tolist())), True, sample=dict(check='same input object, contents changed in place', kind=kind, step=step))
            try:
                got = cg.function([x])
                want = progs.run(prog, x if kind == 'ndarray' else ap.UTPM(x.data.copy()), ap)
            except Exception as e:
                rep.notes.append('evaluation raised %r' % e); break
            if not all(same(g, w) for g, w in zip(got, want)):
                rep.violation('replay:same-object', 'cg.function called with the SAME %s object after its contents were changed in place returns the value of an earlier evaluation' % kind,
                              dict(kind='replay', prog=prog, x_new=repr(as_data(x).tolist()), step=step))
                break
            # the caller scribbles on what it was handed, then moves the point in place
            for g in got:
                try:
                    as_data(g)[...] = -7.5
                except Exception:
                    pass
            if kind == 'ndarray':
                x *= 0.5; x += 0.25
            else:
                x.data[...] = x.data * 0.5 + 0.25
    # two independents, one of them kept and updated in place
    for it in range(6 if tier == 'quick' else 60):
        cg, order = multi.record(ap, progs.rand_point(rng, 3) + 0.125, progs.rand_point(rng, 2) + 0.125, bool(it & 1), False)
        a, b = progs.rand_point(rng, 3) + 0.125, progs.rand_point(rng, 2) + 0.125
        for step in range(3):
            rep.count('same object replayed', 'two independents')
            rep.case(('same-object-2', it, step, repr(a.tolist()), repr(b.tolist())), True, sample=dict(check='same input objects, one updated in place', step=step))
            got = float(numpy.asarray(as_data(cg.function([a, b])[0])).reshape(-1)[0]); want = float(multi.direct(ap, a.copy(), b.copy()))
            if abs(got - want) > 1e-12 * (1 + abs(want)):
                rep.violation('replay:same-object:two-independents', 'cg.function([a, b]) with the same objects after b was updated in place: %r, the program gives %r' % (got, want),
                              dict(kind='replay', a=a.tolist(), b=b.tolist(), step=step))
                break
            b -= 0.125


def constant_index_section(rep, ap, rng, tier):
    """traced values indexed with CONSTANT boolean masks and integer index lists / arrays (alone and inside tuples): recorded value and
    replays at other points equal the program run directly (forward evaluation only)"""
    for it in range(10 if tier == 'quick' else 120):
        n = rng.randint(3, 5)
        mask = numpy.array([rng.random() < 0.5 for _ in range(n)]); mask[rng.randrange(n)] = True; mask[rng.randrange(n)] = False if mask.sum() > 1 else mask[rng.randrange(n)]
        ilist = [rng.randrange(n) for _ in range(rng.randint(1, 3))]
        rowmask = numpy.array([True, False, True])[:3]
        forms = {'x[bool array]': lambda z: z[mask], 'x[bool list]': lambda z: z[mask.tolist()], 'x[int list]': lambda z: z[ilist], 'x[int array]': lambda z: z[numpy.array(ilist)],
                 'A[rowmask, 1:]': None}
        name = list(forms)[it % len(forms)]
        rep.count('constant index', name)
        rep.case(('const-index', name, it), True, sample=dict(check='constant mask / index list', form=name))
        try:
            if name == 'A[rowmask, 1:]':
                f = lambda z: ap.sum(ap.reshape(z, (3, 2))[rowmask, 1:] * 1.5) + ap.sum(z)
                n_in = 6
            else:
                g = forms[name]
                f = lambda z: ap.sum(g(z) * g(z)) + ap.sum(ap.sin(g(z)))
                n_in = n
            x_rec = progs.rand_point(rng, n_in)
            cg = ap.CGraph(); fx = ap.Function(x_rec.copy()); fy = f(fx); cg.trace_off(); cg.independentFunctionList = [fx]; cg.dependentFunctionList = [fy]
            rec_ok = abs(float(as_data(fy.x)) - float(f(x_rec.copy()))) <= 1e-12 * (1 + abs(float(f(x_rec.copy()))))
            ok = rec_ok
            for kind in ('ndarray', 'UTPM'):
                xn = progs.rand_point(rng, n_in) if kind == 'ndarray' else ap.UTPM(progs.rand_utpm_data(rng, 2, 2, n_in))
                got = cg.function([xn])[0]; want = f(xn if kind == 'ndarray' else ap.UTPM(xn.data.copy()))
                ok = ok and same(got, want)
        except Exception as e:
            rep.notes.append('constant index %s raised %r' % (name, e)); continue
        if not ok:
            rep.violation('replay:constant-index:%s' % name.split('[')[1][:4], 'traced %s with a constant mask / index list: recorded value or replay differs from the program run directly' % name,
                          dict(kind='const-index', form=name, mask=mask.tolist(), ilist=ilist))


def multi_input_section(rep, ap, rng, tier):
    """graphs with several independent variables, wrapped eagerly (all first) or lazily (operations on the first input are recorded
    before the second input is wrapped; a buffer is allocated in between): replay at other points / kinds / D, P against the program
    run directly"""
    n = 20 if tier == 'quick' else 300

    def f(a, b, alloc):
        """a, b: raw values or Function nodes of shape (2,); alloc: buffer factory"""
        s1 = ap.sin(a[0]) * a[1] + 1.5
        buf = alloc(2)
        buf[0] = s1 * s1
        buf[1] = a[1] - 0.5
        t = buf[0] * b[0] + ap.exp(ap.sin(b[1])) * buf[1]
        return t + s1, t * b[0]

    for it in range(n):
        lazy = it % 2 == 1
        kind = rng.choice(['ndarray', 'UTPM'])
        mk = (lambda: progs.rand_point(rng, 2)) if kind == 'ndarray' else (lambda: ap.UTPM(progs.rand_utpm_data(rng, 2, 2, 2)))
        xr, yr = mk(), mk()
        rep.count('multi-input:wrapping', 'lazy' if lazy else 'eager'); rep.count('multi-input:recorded_with', kind)
        try:
            cg = ap.CGraph()
            fx = ap.Function(xr)
            if lazy:
                part = ap.sin(fx[0]) * fx[1]          # recorded BEFORE the second independent exists
                fy = ap.Function(yr)
            else:
                fy = ap.Function(yr)
                part = ap.sin(fx[0]) * fx[1]
            outs = f(fx, fy, lambda k: ap.zeros(k, dtype=fx))
            o3 = outs[0] + part
            cg.trace_off()
            cg.independentFunctionList = [fx, fy]
            cg.dependentFunctionList = [outs[0], outs[1], o3]
        except Exception as e:
            rep.violation('multi-input:record:exception', 'recording a graph with two independent variables raises %r' % (e,), dict(kind='multi-input', lazy=lazy)); continue
        for _r in range(3):
            k2 = rng.choice(['ndarray', 'UTPM', 'UTPM'])
            if k2 == 'ndarray':
                x2, y2 = progs.rand_point(rng, 2), progs.rand_point(rng, 2)
            else:
                D2, P2 = rng.randint(1, 4), rng.randint(1, 3)
                x2, y2 = ap.UTPM(progs.rand_utpm_data(rng, D2, P2, 2)), ap.UTPM(progs.rand_utpm_data(rng, D2, P2, 2))
            rep.case(('multi-input', lazy, kind, k2, repr(as_data(x2).tolist()), repr(as_data(y2).tolist())), True,
                     sample=dict(check='two independents', wrapping='lazy' if lazy else 'eager', recorded_with=kind, replay_with=k2))
            try:
                got = cg.function([x2, y2])
                zeros = (lambda k: ap.zeros(k, dtype=x2)) if k2 == 'UTPM' else (lambda k: numpy.zeros(k))
                w = f(x2, y2, zeros)
                want = [w[0], w[1], w[0] + ap.sin(x2[0]) * x2[1]]
            except Exception as e:
                rep.violation('multi-input:replay:exception', 'replaying a graph with two independent variables raises %r' % (e,), dict(kind='multi-input', lazy=lazy, exc=repr(e)[:500])); break
            if not all(same(g, w_) for g, w_ in zip(got, want)):
                rep.violation('multi-input:replay:%s' % ('lazy' if lazy else 'eager'), 'graph with two independents (%s wrapping, recorded with %s, replayed with %s): replay differs from the program run directly'
                              % ('lazy' if lazy else 'eager', kind, k2), dict(kind='multi-input', lazy=lazy, x=as_data(x2).tolist(), y=as_data(y2).tolist(),
                                                                                got=[as_data(g).tolist() for g in got], want=[as_data(w_).tolist() for w_ in want]))
                break


def main(tier, seed):
    ap = lib.import_algopy()
    rep = Report(PID, tier, seed)
    rep.rule = ('generated straight-line programs (scalar arithmetic with constants on either side, elementary functions, powers, buffers with '
                'in-place writes and re-reads, vector/matrix blocks with sum/dot/outer/reshape/transpose/inv/solve/det/logdet/trace) recorded on '
                'an ndarray or a UTPM and replayed 1-4 times on unrelated inputs (ndarray, UTPM with other D,P); one evaluation = one (program, '
                'recording input, replay input) triple; non-trivial = program with >= 6 instructions; distinct by program text and inputs')
    rep.assumptions = ['Python object identity / user-level aliasing is outside the model', 'float results of identical operation sequences are compared with relative tolerance 1e-12']
    rep.theorems()
    rng = lib.rng_for(seed, PID)
    n_prog = 120 if tier == 'quick' else 2500
    terms, metas = [], []
    kernel = progs.kernel_programs(rng, ap, reps=1 if tier == 'quick' else 6)
    for it in range(n_prog + len(kernel)):
        rational = it % 3 == 0 and it < n_prog
        if it < n_prog:
            prog = progs.gen_prog(rng, ap, nout=rng.choice([1, 1, 2]), rational=rational, traced_pow=(it % 3 == 2), focus='linalg' if it % 3 == 1 else None)
        else:
            prog = kernel[it - n_prog][1]          # every traced operation the generator knows, whatever the random composition picked
            rep.count('kernel program', kernel[it - n_prog][0])
        N = prog['N']
        rec_kind = rng.choice(['ndarray', 'UTPM'])
        x_rec, rmeta = make_input(ap, rng, N, rec_kind)
        text = progs.to_text(prog)
        meta = dict(program=text, N=N, recorded_with=rmeta, buffers=progs.has_buffer(prog))
        rep.count('recorded_with', rec_kind); rep.count('length', len(prog['instrs']) // 5 * 5); rep.count('buffers', meta['buffers'])
        try:
            direct = progs.run(prog, x_rec, ap)
            cg, fx, fys = record(ap, prog, x_rec)
        except Exception as e:
            rep.violation('record:exception:' + type(e).__name__, 'recording raises %r' % (e,), dict(kind='record', prog=prog, case=meta, exc=repr(e)))
            continue
        # (1) computing through tracer nodes = computing on the unwrapped operands
        rep.case(('record', text, repr(as_data(x_rec).tolist())), len(prog['instrs']) >= 6, sample=dict(check='record', **meta))
        if not all(same(f.x, d, 0.0) for f, d in zip(fys, direct)):
            rep.violation('record:value', 'values computed through tracer nodes differ from the program on the unwrapped operands',
                          dict(kind='record', prog=prog, case=meta, x=as_data(x_rec).tolist()))
            continue
        # (3) tape structure
        tape = tape_of(cg)
        ids = [t[1] for t in tape]
        if ids != list(range(len(tape))) or any(isinstance(a, int) and a >= t[1] and t[0] != 'Id' for t in tape for a in t[2]):
            rep.violation('tape:order', 'recorded nodes are not numbered in execution order after their operands', dict(kind='tape', prog=prog, case=meta, tape=tape))
            continue
        n_before = len(cg.functionList)
        try:
            progs.run(prog, ap.Function(x_rec), ap)     # tracing is off: must not record
        except Exception as e:
            rep.notes.append('running with tracing off raised %r' % e)
        if len(cg.functionList) != n_before or cg.functionCount != n_before:
            rep.violation('tape:off', 'operations executed while tracing is off were recorded', dict(kind='tape', prog=prog, case=meta))
            continue
        # tape and replay against the Coq model (rational scalar programs with buffers)
        if rational and tm.in_model(prog):
            shape = tm.impl_tape_shape(cg)
            terms.append('(@wf_prog ser %d %s && (tape_shape (T_record %s).1 == %s))' % (N, tm.prog_lit(prog, 1), tm.prog_lit(prog, 1), tm.shape_lit(shape)))
            metas.append(dict(check='recorded tape', program=text, prog=prog, tape=[list(t) for t in tape]))
            D = rng.randint(1, 3)
            d2 = progs.rand_utpm_data(rng, D, 1, N)
            try:
                got = cg.function([ap.UTPM(d2.copy())])
                outs = [f.ID for f in fys]
                ys = '[:: ' + '; '.join(qseq([lib.frac(v) for v in as_data(g)[:, 0]]) for g in got) + ']'
                terms.append('(sers_close %s (T_replay_out %d (T_record %s).1 %s %s) %s)'
                             % (qlit(Fraction(1, 2 ** 30)), D, tm.prog_lit(prog, D), natseq(outs), tm.series_list(d2[:, 0, :]), ys))
                metas.append(dict(check='replay value', program=text, prog=prog, x=d2.tolist()))
            except Exception as e:
                rep.notes.append('model replay case raised %r' % e)
        # (2) replays
        for _r in range(rng.randint(1, 4)):
            kind = rng.choice(['ndarray', 'UTPM', 'UTPM'])
            xn, nmeta = make_input(ap, rng, N, kind)
            rep.count('replayed_with', kind)
            rep.case(('replay', text, repr(as_data(x_rec).tolist()), repr(as_data(xn).tolist())), len(prog['instrs']) >= 6, sample=dict(check='replay', replay_with=nmeta, **meta))
            try:
                want = progs.run(prog, xn, ap)
            except Exception as e:
                rep.notes.append('direct evaluation raised %r' % e)
                continue
            try:
                got = cg.function([xn])
            except Exception as e:
                rep.violation('replay:exception:%s->%s' % (rec_kind, kind), 'replay with a %s input of a graph recorded with a %s raises: %s' % (kind, rec_kind, str(e)[:200]),
                              dict(kind='replay', prog=prog, case=meta, x_rec=as_data(x_rec).tolist(), x_new=as_data(xn).tolist(), new=nmeta, exc=repr(e)[:600]))
                break
            if len(got) != len(want) or not all(same(g, w) for g, w in zip(got, want)):
                rep.violation('replay:value:%s->%s%s' % (rec_kind, kind, ':buffers' if meta['buffers'] else ''),
                              'replay (recorded with %s, evaluated with %s) differs from running the program directly' % (rec_kind, kind),
                              dict(kind='replay', prog=prog, case=meta, x_rec=as_data(x_rec).tolist(), x_new=as_data(xn).tolist(), new=nmeta,
                                   got=[as_data(g).tolist() for g in got], want=[as_data(w).tolist() for w in want]))
                break
    multi_input_section(rep, ap, rng, tier)
    complex_replay_section(rep, ap, rng, tier)
    import r12
    r12.c05_projection_nodes(rep, ap, lib.rng_for(seed, PID + ':projection'), tier)   # own stream: the sections below keep their draws
    same_object_section(rep, ap, rng, tier)
    constant_index_section(rep, ap, rng, tier)
    verdicts, logs = lib.eval_bool_cases(PID, tm.IMPORTS, tm.DEFS, terms, per_file=40)
    bad = 0
    for m, v, t in zip(metas, verdicts, terms):
        rep.count('model', m['check'])
        rep.case(('model', m['check'], m['program'], json.dumps(m.get('x'))), True, sample=dict(check=m['check'], program=m['program'][:300]))
        if v is None:
            bad += 1
        elif not v:
            rep.violation('model:' + m['check'].replace(' ', '-'), '%s differs from what the proved model Tracer.v gives for the same program' % m['check'],
                          dict(kind='model', case={k: m[k] for k in m if k != 'prog'}, prog=m['prog'], coq_term=t[:5000]))
    if bad or logs:
        rep.violation('corr:uneval', 'correspondence corr.C05 could not be evaluated for %d cases' % bad, dict(kind='correspondence', name='corr.C05', log=logs[:3]), no_input=True)
    import r9
    r9.c05_access_while_off(rep, ap, rng, tier)
    return rep.finish()


def replay(path):
    pl = json.load(open(path))
    return main(pl.get('tier', 'quick'), pl.get('seed', 0))
