"""C01 -- elementary functions return the Taylor coefficients of f(x(t)).
Theorems: Props/C01.v (recurrences of Series.v = coefficients of the formal composition).
Correspondence: Series.v (vm_compute over Qc) vs algopy on generated UTPMs, every (direction, element) series."""
import json
from fractions import Fraction
import numpy
import lib, elem
from lib import Report, qlit, qseq

PID = 'C01'
IMPORTS = 'QcField Sums Series'
DEFS = ''
TOL = Fraction(1, 2 ** 26)


def build_terms(algopy, case):
    """run the implementation on one case; returns (terms, metas, exc)"""
    fn = elem.FUNCS[case['fn']]
    data = numpy.array(case['data'], dtype=float)
    D, P = data.shape[:2]
    x = algopy.UTPM(data.copy())
    try:
        y = elem.call_impl(algopy, fn, case['route'], x, case['prm'])
        ydata = elem.result_data(algopy, y, (D, P))
    except Exception as e:
        return [], [], e
    if ydata.shape != data.shape:
        return [], [], TypeError('result shape %s != argument shape %s' % (ydata.shape, data.shape))
    if numpy.iscomplexobj(ydata) or not numpy.all(numpy.isfinite(ydata)):
        return [], [], ValueError('non-finite or complex result for real input')
    n = int(numpy.prod(data.shape[2:], dtype=int))
    terms, metas = [], []
    for p in range(P):
        for e in range(n):
            xs = elem.series_of(data, p, e)
            ys = elem.series_of(ydata, p, e)
            model = fn.model([lib.frac(v) for v in xs], xs[0], case['prm'])
            terms.append('(Qc_allclose %s %s %s)' % (qlit(TOL), model, qseq([lib.frac(v) for v in ys])))
            metas.append(dict(p=p, e=e, xs=[float(v) for v in xs], impl=[float(v) for v in ys]))
    return terms, metas, None


def taylor_residual(fn, prm, xs, ys):
    """model-free plausibility number: |f(x(t)) - sum y_d t^d| / t^D at t = 1/32 (numpy only)"""
    import scipy.special as sp
    t = 1. / 32
    xt = sum(c * t ** d for d, c in enumerate(xs))
    yt = sum(c * t ** d for d, c in enumerate(ys))
    n = fn.name
    try:
        if fn.call == 'pow':
            f = xt ** (prm['n'] if 'n' in prm else prm['r'])
        elif n == 'polygamma':
            f = sp.polygamma(prm['m'], xt)
        elif n == 'hyperu':
            f = sp.hyperu(prm['a'], prm['b'], xt)
        elif n == 'botched_clip':
            f = numpy.clip(xt, prm['lo'], prm['hi'])
        elif hasattr(numpy, n):
            f = getattr(numpy, n)(xt)
        else:
            f = getattr(sp, n)(xt)
        return float(abs(f - yt) / t ** len(xs))
    except Exception:
        return None


def main(tier, seed, only=None):
    algopy = lib.import_algopy()
    rep = Report(PID, tier, seed)
    rep.rule = ('per function: random D in 1..Dmax, P in 1..3, coefficient shape from a fixed list, base coefficient on a /16 grid inside the '
                'domain (each side of 0 where the domain has two components), higher coefficients dense/zero/single/alternating/sparse '
                'dyadics, call route algopy.f / numpy.f (ufunc dispatch) / UTPM.f / operator; one evaluation = one (direction, element) '
                'series; non-trivial = D>=2 and some higher coefficient non-zero; distinct by (function, parameters, series)')
    rep.assumptions = ['base values f(x0) (and f^(n)(x0) for gammaln/psi/polygamma/hyperu) are taken from NumPy/SciPy, not proved',
                       'real coefficients only in the model (complex128 inputs are not generated)',
                       'relative tolerance 2^-26 between exact model and float64 implementation']
    rep.theorems()
    rng = lib.rng_for(seed, PID)
    names = sorted(elem.FUNCS) if only is None else only
    per_fn = 8 if tier == 'quick' else 120
    Dmax = 6 if tier == 'quick' else 10
    cases = []
    for nm in names:
        for _ in range(per_fn):
            cases.append(elem.gen_case(rng, elem.FUNCS[nm], Dmax=Dmax))
    run_and_judge(rep, algopy, cases)
    return rep.finish()


def run_and_judge(rep, algopy, cases):
    all_terms, owners = [], []
    for ci, case in enumerate(cases):
        terms, metas, exc = build_terms(algopy, case)
        rep.count('function', case['fn']); rep.count('D', case['D']); rep.count('P', case['P'])
        rep.count('shape', tuple(case['shape'])); rep.count('route', case['route']); rep.count('pattern', case['pattern'])
        if exc is not None:
            rep.violation('corr:%s:%s:exception' % (case['fn'], case['route']),
                          '%s via %s raises %s on an in-domain input' % (case['fn'], case['route'], type(exc).__name__),
                          dict(kind='exception', case=case, exc=repr(exc)))
            continue
        for t, m in zip(terms, metas):
            all_terms.append(t)
            owners.append((ci, m))
    verdicts, logs = lib.eval_bool_cases(PID, IMPORTS, DEFS, all_terms, per_file=150)
    uneval = 0
    for (ci, m), v, t in zip(owners, verdicts, all_terms):
        case = cases[ci]
        nontriv = case['D'] >= 2 and any(c != 0 for c in m['xs'][1:])
        rep.case((case['fn'], json.dumps(case['prm'], sort_keys=True), tuple(m['xs'])), nontriv,
                 sample=dict(fn=case['fn'], prm=case['prm'], route=case['route'], x=m['xs'], y=m['impl']))
        if v is None:
            uneval += 1
        elif not v:
            fn = elem.FUNCS[case['fn']]
            res = taylor_residual(fn, case['prm'], m['xs'], m['impl'])
            rep.violation('corr:%s:%s' % (case['fn'], case['route']),
                          '%s: implementation coefficients differ from the proved recurrence model' % case['fn'],
                          dict(kind='series', fn=case['fn'], prm=case['prm'], route=case['route'], D=case['D'], x=m['xs'], impl=m['impl'],
                               direction=m['p'], element=m['e'], shape=case['shape'], P=case['P'], coq_term=t, taylor_residual_over_tD=res,
                               python="import numpy, algopy; x = algopy.UTPM(numpy.array(%r).reshape((%d,1))); # call %s via %s, prm %r"
                                      % (m['xs'], case['D'], case['fn'], case['route'], case['prm'])))
    if uneval or logs:
        rep.violation('corr:uneval', 'correspondence corr.%s could not be evaluated for %d series' % (PID, uneval),
                      dict(kind='correspondence', name='corr.' + PID, log=logs[:3]), no_input=True)
    rep.corr = dict(cases=len(cases), series=len(all_terms), unevaluated=uneval)


def replay(path):
    pl = json.load(open(path))
    algopy = lib.import_algopy()
    rep = Report(PID, 'quick', pl.get('seed', 0))
    if pl.get('kind') == 'series':
        D = pl['D']
        case = dict(fn=pl['fn'], prm=pl['prm'], D=D, P=1, shape=[], pattern='replay', route=pl['route'],
                    data=numpy.array(pl['x'], dtype=float).reshape((D, 1)).tolist())
        run_and_judge(rep, algopy, [case])
    elif pl.get('kind') == 'exception':
        run_and_judge(rep, algopy, [pl['case']])
    else:
        rep.theorems()
    return rep.finish()
