"""C01 -- elementary functions return the Taylor coefficients of f(x(t)).
Theorems: Props/C01.v (recurrences of Series.v = coefficients of the formal composition).
Correspondence: Series.v (vm_compute over Qc) vs algopy on generated UTPMs, every (direction, element) series."""
import json
from fractions import Fraction
import numpy
import lib, elem
from lib import Report, qlit, qseq

PID = 'C01'
IMPORTS = 'QcField QciField Sums Series'
DEFS = '''
(* complex coefficients: the same field-generic recurrences run over the Gaussian rationals Q(i) (QciField.v) *)
Definition ci (a b : Qc) : Qci := MkQci a b.
Definition qci_close (tol : Qc) (a b : Qci) : bool :=
  Qc_leb (Qc_abs (Qcminus (re a) (re b))) (Qcmult tol (Qcplus 1%Qc (Qcplus (Qc_abs (re b)) (Qc_abs (im b))))) &&
  Qc_leb (Qc_abs (Qcminus (im a) (im b))) (Qcmult tol (Qcplus 1%Qc (Qcplus (Qc_abs (re b)) (Qc_abs (im b))))).
Fixpoint qci_allclose (tol : Qc) (a b : seq Qci) : bool :=
  match a, b with [::], [::] => true | x :: a', y :: b' => qci_close tol x y && qci_allclose tol a' b' | _, _ => false end.
'''
TOL = Fraction(1, 2 ** 26)


def build_terms(algopy, case):
    """run the implementation on one case; returns (terms, metas, exc)"""
    fn = elem.FUNCS[case['fn']]
    cx = 'data_im' in case
    data = numpy.array(case['data'], dtype=float)
    if cx:
        data = data + 1j * numpy.array(case['data_im'], dtype=float)
    D, P = data.shape[:2]
    x = algopy.UTPM(lib.relayout(data.copy(), case.get('layout', 'C')))      # Fortran-ordered / transposed coefficient arrays as well
    try:
        y = elem.call_impl(algopy, fn, case['route'], x, case['prm'])
        ydata = elem.result_data(algopy, y, (D, P))
    except Exception as e:
        return [], [], e
    if ydata.shape != data.shape:
        return [], [], TypeError('result shape %s != argument shape %s' % (ydata.shape, data.shape))
    if (numpy.iscomplexobj(ydata) and not cx) or not numpy.all(numpy.isfinite(ydata)):
        return [], [], ValueError('non-finite or complex result for real input')
    n = int(numpy.prod(data.shape[2:], dtype=int))
    terms, metas = [], []
    for p in range(P):
        for e in range(n):
            xs = elem.series_of(data, p, e)
            ys = elem.series_of(ydata, p, e)
            if cx:
                model = fn.model([complex(v) for v in xs], complex(xs[0]), case['prm'])
                terms.append('(qci_allclose %s %s %s)' % (qlit(TOL), model, elem.qseq([complex(v) for v in ys])))
                metas.append(dict(p=p, e=e, xs=[[float(numpy.real(v)), float(numpy.imag(v))] for v in xs], impl=[[float(numpy.real(v)), float(numpy.imag(v))] for v in ys], complex=True))
                continue
            model = fn.model([lib.frac(v) for v in xs], xs[0], case['prm'])
            terms.append('(Qc_allclose %s %s %s)' % (qlit(TOL), model, qseq([lib.frac(v) for v in ys])))
            metas.append(dict(p=p, e=e, xs=[float(v) for v in xs], impl=[float(v) for v in ys]))
    return terms, metas, None


def taylor_residual(fn, prm, xs, ys):
    """model-free plausibility number: |f(x(t)) - sum y_d t^d| / t^D at t = 1/32 (numpy only)"""
    import scipy.special as sp
    t = 1. / 32
    xt = sum(c * t ** d for d, c in enumerate(xs))
    yt = sum(c * t ** d for d, c in enumerate(ys))
    n = fn.name
    try:
        if fn.call == 'pow':
            f = xt ** (prm['n'] if 'n' in prm else prm['r'])
        elif n == 'polygamma':
            f = sp.polygamma(prm['m'], xt)
        elif n == 'hyperu':
            f = sp.hyperu(prm['a'], prm['b'], xt)
        elif n == 'botched_clip':
            f = numpy.clip(xt, prm['lo'], prm['hi'])
        elif hasattr(numpy, n):
            f = getattr(numpy, n)(xt)
        else:
            f = getattr(sp, n)(xt)
        return float(abs(f - yt) / t ** len(xs))
    except Exception:
        return None


def main(tier, seed, only=None):
    algopy = lib.import_algopy()
    rep = Report(PID, tier, seed)
    rep.rule = ('per function: random D in 1..Dmax, P in 1..3, coefficient shape from a fixed list, base coefficient on a /16 grid inside the '
                'domain (each side of 0 where the domain has two components), higher coefficients dense/zero/single/alternating/sparse '
                'dyadics, call route algopy.f / numpy.f (ufunc dispatch) / UTPM.f / operator; one evaluation = one (direction, element) '
                'series; non-trivial = D>=2 and some higher coefficient non-zero; distinct by (function, parameters, series)')
    rep.assumptions = ['base values f(x0) (and f^(n)(x0) for gammaln/psi/polygamma/hyperu) are taken from NumPy/SciPy, not proved',
                       'complex coefficients: base points off the real axis with |Im| in {1/2, 1, 5/4}; the functions of COMPLEX_OK (elementary functions and integer powers) only',
                       'relative tolerance 2^-26 between exact model and float64 implementation']
    rep.theorems()
    rng = lib.rng_for(seed, PID)
    names = sorted(elem.FUNCS) if only is None else only
    per_fn = 8 if tier == 'quick' else 120
    Dmax = 6 if tier == 'quick' else 10
    cases = []
    for nm in names:
        for _ in range(per_fn):
            cases.append(elem.gen_case(rng, elem.FUNCS[nm], Dmax=Dmax))
            cases[-1]['layout'] = rng.choice(['C', 'C', 'F', 'T'])
        if nm in elem.COMPLEX_OK:
            # complex base points off the real axis (inside the domain of analyticity, outside the unit disk as well), complex higher coefficients
            for _ in range(max(2, min(per_fn // 3, 12))):
                c = elem.gen_case(rng, elem.FUNCS[nm], Dmax=min(Dmax, 5), Pmax=2)
                re = numpy.array(c['data'], dtype=float)
                im = numpy.array([rng.randint(-8, 8) / 8 for _ in range(re.size)]).reshape(re.shape)
                for p_ in range(re.shape[1]):
                    for idx in numpy.ndindex(*re.shape[2:]):
                        z0 = elem.gen_x0_complex(rng, elem.FUNCS[nm])
                        re[(0, p_) + idx] = z0.real; im[(0, p_) + idx] = z0.imag
                c['data'] = re.tolist(); c['data_im'] = im.tolist(); c['layout'] = rng.choice(['C', 'F'])
                rep.count('complex coefficients', nm)
                cases.append(c)
    if only is None or 'hyperu' in names:
        # terminating series: hyperu(-n, b, x) is a polynomial of degree n; expanded exactly where one of its derivatives of order >= 2
        # VANISHES (second derivative of U(-3,b,.) at b+2, third of U(-4,b,.) at b+3, first of U(-2,b,.) at b+1) the generic Faa-di-Bruno
        # helper meets an exactly zero derivative in the middle of its loop
        for a, b, x0 in [(-3, 0.5, 2.5), (-3, 1.5, 3.5), (-4, 0.5, 3.5), (-4, 2.0, 5.0), (-2, 0.5, 1.5), (-3, 2.0, 4.0), (-5, 0.5, 4.5)]:
            for D in (4, 5, 6):
                P = rng.randint(1, 2)
                data = numpy.zeros((D, P, 2))
                for idx in numpy.ndindex(*data.shape):
                    data[idx] = x0 if idx[0] == 0 else rng.choice([-1.5, -0.75, 0.5, 1.0, 1.25, 2.0])
                rep.count('terminating series', 'hyperu(%d, %s, .) at %s' % (a, b, x0))
                cases.append(dict(fn='hyperu', prm=dict(a=a, b=b), D=D, P=P, shape=[2], pattern='dense', route=rng.choice(['special', 'classmethod']), data=data.tolist(), layout='C'))
    if only is None or 'gammaln' in names:
        # gammaln (= log|Gamma|) and psi on the NEGATIVE axis between the poles: real analytic there, the same recurrences
        for fname in ('gammaln', 'psi'):
            for x0 in (-0.5, -1.5, -2.25, -0.25, -3.5):
                D = rng.randint(2, 5); P = rng.randint(1, 2)
                data = numpy.zeros((D, P, 2))
                for idx in numpy.ndindex(*data.shape):
                    data[idx] = x0 if idx[0] == 0 else rng.choice([-0.125, 0.0625, 0.125, -0.0625, 0.25])
                rep.count('negative axis', '%s at %s' % (fname, x0))
                cases.append(dict(fn=fname, prm={}, D=D, P=P, shape=[2], pattern='dense', route=rng.choice(['special', 'classmethod']), data=data.tolist(), layout='C'))
    run_and_judge(rep, algopy, cases)
    return rep.finish()


def run_and_judge(rep, algopy, cases):
    all_terms, owners = [], []
    for ci, case in enumerate(cases):
        terms, metas, exc = build_terms(algopy, case)
        rep.count('function', case['fn']); rep.count('D', case['D']); rep.count('P', case['P'])
        rep.count('shape', tuple(case['shape'])); rep.count('route', case['route']); rep.count('pattern', case['pattern'])
        if exc is not None:
            rep.violation('corr:%s:%s:exception' % (case['fn'], case['route']),
                          '%s via %s raises %s on an in-domain input' % (case['fn'], case['route'], type(exc).__name__),
                          dict(kind='exception', case=case, exc=repr(exc)))
            continue
        for t, m in zip(terms, metas):
            all_terms.append(t)
            owners.append((ci, m))
    verdicts, logs = lib.eval_bool_cases(PID, IMPORTS, DEFS, all_terms, per_file=150)
    uneval = 0
    for (ci, m), v, t in zip(owners, verdicts, all_terms):
        case = cases[ci]
        nontriv = case['D'] >= 2 and any((c != 0 and c != [0.0, 0.0]) for c in m['xs'][1:])
        rep.case((case['fn'], json.dumps(case['prm'], sort_keys=True), json.dumps(m['xs'])), nontriv,
                 sample=dict(fn=case['fn'], prm=case['prm'], route=case['route'], x=m['xs'], y=m['impl']))
        if v is None:
            uneval += 1
        elif not v:
            fn = elem.FUNCS[case['fn']]
            res = None if m.get('complex') else taylor_residual(fn, case['prm'], m['xs'], m['impl'])
            rep.violation('corr:%s:%s' % (case['fn'], case['route']),
                          '%s: implementation coefficients differ from the proved recurrence model' % case['fn'],
                          dict(kind='series', fn=case['fn'], prm=case['prm'], route=case['route'], D=case['D'], x=m['xs'], impl=m['impl'],
                               direction=m['p'], element=m['e'], shape=case['shape'], P=case['P'], coq_term=t, taylor_residual_over_tD=res,
                               python="import numpy, algopy; x = algopy.UTPM(numpy.array(%r).reshape((%d,1))); # call %s via %s, prm %r"
                                      % (m['xs'], case['D'], case['fn'], case['route'], case['prm'])))
    if uneval or logs:
        rep.violation('corr:uneval', 'correspondence corr.%s could not be evaluated for %d series' % (PID, uneval),
                      dict(kind='correspondence', name='corr.' + PID, log=logs[:3]), no_input=True)
    rep.corr = dict(cases=len(cases), series=len(all_terms), unevaluated=uneval)


def replay(path):
    pl = json.load(open(path))
    algopy = lib.import_algopy()
    rep = Report(PID, 'quick', pl.get('seed', 0))
    if pl.get('kind') == 'series':
        D = pl['D']
        case = dict(fn=pl['fn'], prm=pl['prm'], D=D, P=1, shape=[], pattern='replay', route=pl['route'],
                    data=numpy.array(pl['x'], dtype=float).reshape((D, 1)).tolist())
        run_and_judge(rep, algopy, [case])
    elif pl.get('kind') == 'exception':
        run_and_judge(rep, algopy, [pl['case']])
    else:
        rep.theorems()
    return rep.finish()
