"""Operations added to the registry after round 9 (imported at the end of ops.py)."""
import numpy
import ops
from ops import Op, reg, _rand_utpm, _as, _spd_or_general, _run_linalg


# ---- directions that REPEAT the base point of an earlier, non-adjacent direction exactly (patterns A,B,A / A,B,C,A / A,A,B,A): "the same
# base point as direction 0" and "the factor computed last" are different things
def _gen_repeat_dirs(name, kind):
    def gen(rng, Dmax=6, Pmax=3):
        D = rng.randint(2, 4); n = rng.randint(2, 3)
        pattern = rng.choice(['ABA', 'ABCA', 'AABA', 'ABAB'])
        P = len(pattern)
        A = _rand_utpm(rng, D, P, (n, n))
        if kind in ('spd', 'sym'):
            A = 0.5 * (A + A.transpose((0, 1, 3, 2)))
        base = {}
        for p, ch in enumerate(pattern):
            if ch not in base:
                base[ch] = _spd_or_general(rng, n, kind)
            A[0, p] = base[ch]
        ins = [A.tolist()]
        if name == 'solve':
            ins.append(_rand_utpm(rng, D, P, (n, 2)).tolist())
        return dict(op='linalg:%s_repeat_dirs' % name, inputs=ins, pattern=pattern)
    return gen


for _name, _kind in [('inv', 'general'), ('cholesky', 'spd'), ('solve', 'general'), ('det', 'general'), ('logdet', 'general'), ('qr', 'general'), ('eigh', 'sym'), ('lu', 'general')]:
    _op = Op('linalg:%s_repeat_dirs' % _name, _gen_repeat_dirs(_name, _kind), _run_linalg(_name), 'linalg')
    _op.only = ('C11',)
    reg(_op)


# ---- dot whose second factor has VANISHING leading higher-order coefficients and a non-zero one behind them (y = y0 + y_k t^k), several
# directions with different base points: a "constant factor" shortcut must not look at coefficients a truncated run does not have, nor use
# one direction's base point for all
def _gen_dot_trailing(rng, Dmax=6, Pmax=3):
    D = rng.randint(3, 5); P = rng.randint(2, 3)
    xs, ys = rng.choice([((3,), (3,)), ((2, 3), (3,)), ((2, 3), (3, 2)), ((3,), (3, 2))])
    x = _rand_utpm(rng, D, P, xs); y = _rand_utpm(rng, D, P, ys)
    k = rng.randint(2, D - 1)
    which = rng.choice(['y', 'x', 'both-constant-y'])
    tgt = y if which != 'x' else x
    tgt[1:k] = 0
    if which == 'both-constant-y':
        y[1:] = 0                                   # a genuinely constant factor with per-direction base points
    return dict(op='product:dot_trailing', inputs=[x.tolist(), y.tolist()], which=which, first_nonzero_order=k)


def _run_dot_trailing(algopy, case, inputs):
    return [numpy.asarray(algopy.dot(algopy.UTPM(_as(inputs[0])), algopy.UTPM(_as(inputs[1]))).data)]


_op = Op('product:dot_trailing', _gen_dot_trailing, _run_dot_trailing, 'product')
_op.ref0 = lambda case, ins0: [numpy.dot(ins0[0], ins0[1])]
reg(_op)


# ---- general eigenproblem at EXACTLY symmetric base points (Gram matrices, diagonal matrices with unsorted entries): the zeroth
# coefficient is what numpy.linalg.eig returns for that base point, in that order
def _gen_eig_symmetric(rng, Dmax=6, Pmax=3):
    D = 2; P = rng.randint(1, Pmax); n = rng.randint(2, 3)
    A = _rand_utpm(rng, D, P, (n, n))
    for p in range(P):
        if rng.random() < 0.5:
            B = numpy.array([[rng.randint(-4, 4) / 2 for _ in range(n + 1)] for _ in range(n)])
            A[0, p] = B @ B.T + numpy.diag([0.5 * i for i in range(n)])
        else:
            A[0, p] = numpy.diag(rng.sample([5.0, -1.0, 2.5, 0.5, 3.0], n))
    return dict(op='linalg:eig_symmetric_base', inputs=[A.tolist()])


def _run_eig_values(algopy, case, inputs):
    l, Q = algopy.eig(algopy.UTPM(_as(inputs[0])))
    return [numpy.asarray(l.data)]


_op = Op('linalg:eig_symmetric_base', _gen_eig_symmetric, _run_eig_values, 'linalg')
_op.ref0 = lambda case, ins0: [numpy.linalg.eig(ins0[0])[0]]
_op.only = ('C10', 'C11')
reg(_op)


# ---- transposition of polynomials with FOUR and more array axes (full reversal of the axes, as numpy.transpose)
def _gen_transpose_nd(rng, Dmax=6, Pmax=3):
    D = rng.randint(1, 3); P = rng.randint(1, Pmax)
    shp = rng.choice([(2, 3, 4, 2), (2, 2, 2, 2), (3, 3, 3, 3), (2, 1, 3, 2, 2), (2, 3, 2)])
    return dict(op='shape:transpose_nd', inputs=[_rand_utpm(rng, D, P, shp).tolist()], form=rng.choice(['T', 'transpose()', 'algopy.transpose']))


def _run_transpose_nd(algopy, case, inputs):
    x = algopy.UTPM(_as(inputs[0]))
    y = x.T if case['form'] == 'T' else (x.transpose() if case['form'] == 'transpose()' else algopy.transpose(x))
    return [numpy.asarray(y.data)]


_op = Op('shape:transpose_nd', _gen_transpose_nd, _run_transpose_nd, 'shape')
_op.ref0 = lambda case, ins0: [numpy.transpose(ins0[0])]
reg(_op)


# ---- a matrix operand that is a CONSTANT polynomial (all higher coefficients exactly zero) with a different base point per direction
def _gen_constant_matrix(name, kind):
    def gen(rng, Dmax=6, Pmax=3):
        D = rng.randint(2, 4); P = rng.randint(2, 3); n = rng.randint(2, 3)
        A = numpy.zeros((D, P, n, n))
        for p in range(P):
            A[0, p] = _spd_or_general(rng, n, kind)
        ins = [A.tolist()]
        if name == 'solve':
            ins.append(_rand_utpm(rng, D, P, (n, 2)).tolist())
        return dict(op='linalg:%s_constant_matrix' % name, inputs=ins)
    return gen


for _name, _kind in [('solve', 'general'), ('inv', 'general'), ('cholesky', 'spd'), ('qr', 'general'), ('eigh', 'sym'), ('lu', 'general'), ('det', 'general')]:
    _op = Op('linalg:%s_constant_matrix' % _name, _gen_constant_matrix(_name, _kind), _run_linalg(_name), 'linalg')
    _op.only = ('C11', 'C12')
    reg(_op)
