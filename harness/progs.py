"""Straight-line program generator and interpreter for the tracer properties (C03-C06, also C09/C11/C12).
A program is JSON: dict(N, instrs, ret).  Registers are numbered in order of creation (every instruction except
'set'/'set2' creates one).  Operands: ['r', k] register | ['c', float] python constant | ['a', [floats]] ndarray constant.
The same interpreter runs on algopy.Function (recording), algopy.UTPM and plain ndarrays."""
import math
import numpy

# only what algopy.Function (the tracer) overloads
UN_ANY = ['exp', 'sin', 'cos', 'square', 'negative', 'tan_small', 'expm1', 'erf', 'expit', 'dawsn']
UN_POS = ['log', 'sqrt', 'reciprocal', 'log1p']


def apply_un(ap, name, v):
    import algopy.special as sp
    if name == 'tan_small':
        return ap.tan(ap.sin(v))            # |sin| <= 1 < pi/2
    if name in ('erf', 'expit', 'dawsn'):
        return getattr(sp, name)(v)
    return getattr(ap, name)(v)


def operand(regs, o):
    if o[0] == 'r':
        return regs[o[1]]
    if o[0] == 'c':
        return o[1]
    return numpy.array(o[1], dtype=float)


def run(prog, x, ap):
    """evaluate; returns list of outputs.  `ap` is the algopy module."""
    return run_into(prog, x, ap, [])


def run_into(prog, x, ap, regs):
    """evaluate the instructions of prog, continuing the register file `regs` (so that a program can be run in two parts)"""
    for ins in prog['instrs']:
        k = ins[0]
        if k == 'x':
            regs.append(x[ins[1]])
        elif k == 'xs':
            regs.append(x[ins[1]:ins[2]])
        elif k == 'xall':
            regs.append(x)
        elif k == 'bin':
            a, b = operand(regs, ins[2]), operand(regs, ins[3])
            op = ins[1]
            regs.append(a + b if op == 'add' else a - b if op == 'sub' else a * b if op == 'mul' else a / b)
        elif k == 'un':
            regs.append(apply_un(ap, ins[1], regs[ins[2]]))
        elif k == 'pow':
            regs.append(regs[ins[1]] ** ins[2])
        elif k == 'sum':
            regs.append(ap.sum(regs[ins[1]]))
        elif k == 'prod':
            regs.append(ap.prod(regs[ins[1]]))
        elif k == 'sumaxis':
            regs.append(ap.sum(regs[ins[1]], axis=ins[2]))
        elif k == 'dot':
            regs.append(ap.dot(regs[ins[1]], regs[ins[2]]))
        elif k == 'dotc':
            regs.append(ap.dot(regs[ins[1]], numpy.array(ins[2], dtype=float)))
        elif k == 'cdot':
            regs.append(ap.dot(numpy.array(ins[1], dtype=float), regs[ins[2]]))
        elif k == 'zeros':
            regs.append(ap.zeros(ins[1], dtype=x))
        elif k == 'zeros2':
            regs.append(ap.zeros((ins[1], ins[2]), dtype=x))
        elif k == 'set':
            regs[ins[1]][ins[2]] = operand(regs, ins[3])
        elif k == 'set2':
            regs[ins[1]][ins[2], ins[3]] = operand(regs, ins[4])
        elif k == 'getsl':
            idx = tuple(Ellipsis if it == '...' else (slice(None) if it == ':' else (slice(*it) if isinstance(it, list) else it)) for it in ins[2])
            regs.append(regs[ins[1]][idx if len(idx) != 1 else idx[0]])
        elif k == 'setsl':
            # assignment through a general basic index; the right-hand side may be broadcast into the target
            idx = tuple(Ellipsis if it == '...' else (slice(None) if it == ':' else (slice(*it) if isinstance(it, list) else it)) for it in ins[2])
            regs[ins[1]][idx if len(idx) != 1 else idx[0]] = operand(regs, ins[3])
        elif k == 'get':
            regs.append(regs[ins[1]][ins[2]])
        elif k == 'get2':
            regs.append(regs[ins[1]][ins[2], ins[3]])
        elif k == 'T':
            regs.append(regs[ins[1]].T)
        elif k == 'reshape':
            regs.append(ap.reshape(regs[ins[1]], tuple(ins[2])))
        elif k == 'inv':
            regs.append(ap.inv(regs[ins[1]]))
        elif k == 'solve':
            regs.append(ap.solve(regs[ins[1]], regs[ins[2]]))
        elif k == 'det':
            regs.append(ap.det(regs[ins[1]]))
        elif k == 'logdet':
            regs.append(ap.logdet(regs[ins[1]]))
        elif k == 'trace':
            regs.append(ap.trace(regs[ins[1]]))
        elif k == 'outer':
            regs.append(ap.outer(regs[ins[1]], regs[ins[2]]))
        elif k == 'fftreal':
            import importlib
            fft = importlib.import_module(ap.__name__ + '.fft')
            z = (fft.fft if ins[3] == 'fft' else fft.ifft)(regs[ins[1]], axis=ins[2])       # keyword argument recorded with the node
            regs.append(ap.real(z) if ins[4] == 're' else ap.imag(z))
        elif k == 'symvec':
            regs.append(ap.symvec(regs[ins[1]], ins[2]))
        elif k == 'vecsym':
            regs.append(ap.vecsym(regs[ins[1]]))
        elif k == 'powr':
            regs.append(regs[ins[1]] ** regs[ins[2]])
        elif k in ('eigh', 'qr', 'cholesky', 'svd', 'lu', 'qr_full'):
            regs.append(getattr(ap, k)(regs[ins[1]]))
        elif k == 'tget':
            regs.append(regs[ins[1]][ins[2]])
        else:
            raise ValueError(k)
    return [regs[r] for r in prog['ret']]


def creates_reg(ins):
    return ins[0] not in ('set', 'set2', 'setsl')


class Gen:
    def __init__(self, rng, N, scalar_only=False, buffers=True, linalg=True, rational=False, facts=True, traced_pow=False, focus=None):
        self.focus = focus
        self.rng, self.N = rng, N
        self.instrs = []
        self.kind = []          # per register: 's' scalar | ('v', n) | ('m', n, m) | 'bufv' | 'bufm'
        self.scalar_only, self.buffers, self.linalg = scalar_only, buffers, linalg
        self.rational = rational
        self.facts, self.traced_pow = facts, traced_pow
        self.buf_filled = {}
        self.trailing = False   # append work after the outputs (set by gen_prog / kernel_programs)
        self.buf_len = {}
        self.tags = set()       # properties of the generated program that the instruction list does not show (e.g. a base matrix that needs pivoting)

    def emit(self, ins, kind=None):
        if ins[0] == 'zeros':
            self.buf_len[len(self.kind)] = ins[1]
        self.instrs.append(ins)
        if creates_reg(ins):
            self.kind.append(kind)
            return len(self.kind) - 1
        return None

    def scalars(self):
        return [i for i, k in enumerate(self.kind) if k == 's']

    def pick_scalar(self):
        s = self.scalars()
        if not s or self.rng.random() < 0.25:
            return self.emit(['x', self.rng.randrange(self.N)], 's')
        return self.rng.choice(s)

    def const(self):
        return ['c', self.rng.choice([-2.0, -1.5, -0.5, 0.5, 0.75, 1.25, 2.0, 3.0])]

    def scalar_step(self):
        r = self.rng.random()
        a = self.pick_scalar()
        if r < 0.45:
            op = self.rng.choice(['add', 'sub', 'mul', 'mul'])
            form = self.rng.random()
            if form < 0.6:
                b = self.pick_scalar()
                return self.emit(['bin', op, ['r', a], ['r', b]], 's')
            if form < 0.8:
                return self.emit(['bin', op, ['r', a], self.const()], 's')
            return self.emit(['bin', op, self.const(), ['r', a]], 's')
        if r < 0.55:
            # safe division: a / (b^2 + 1)  or const / (b^2 + 1)
            b = self.pick_scalar()
            sq = self.emit(['un', 'square', b], 's')
            den = self.emit(['bin', 'add', ['r', sq], ['c', 1.0]], 's')
            num = ['r', a] if self.rng.random() < 0.7 else self.const()
            return self.emit(['bin', 'div', num, ['r', den]], 's')
        if r < 0.8:
            f = self.rng.choice(['square', 'negative'] if self.rational else (UN_ANY if not self.scalar_only else ['exp', 'sin', 'cos', 'square', 'negative']))
            if f in ('exp', 'expm1'):
                a = self.emit(['un', 'sin', a], 's')       # keep magnitudes bounded
            return self.emit(['un', f, a], 's')
        if r < 0.9:
            f = self.rng.choice(['reciprocal'] if self.rational else (UN_POS if not self.scalar_only else ['log', 'sqrt', 'reciprocal']))
            sq = self.emit(['un', 'square', a], 's')
            pos = self.emit(['bin', 'add', ['r', sq], ['c', self.rng.choice([0.5, 1.0, 2.0])]], 's')
            return self.emit(['un', f, pos], 's')
        p = self.rng.choice([2, 3, 2, 3, 0.5, 1.5, -1, -2]) if not self.scalar_only else self.rng.choice([2, 3])
        if isinstance(p, float) or p < 0:
            sq = self.emit(['un', 'square', a], 's')
            a = self.emit(['bin', 'add', ['r', sq], ['c', 1.0]], 's')
        elif not self.rational:
            a = self.emit(['un', 'sin', a], 's')
        return self.emit(['pow', a, p], 's')

    def buffer_block(self):
        n = self.rng.randint(2, 3)
        buf = self.emit(['zeros', n], 'bufv')
        for k in range(n):
            self.emit(['set', buf, k, ['r', self.pick_scalar()]])
        # re-read, combine, overwrite (the pattern of test_buffered_operations)
        for _ in range(self.rng.randint(1, 3)):
            k1 = self.rng.randrange(n); k2 = k1 if self.rng.random() < 0.5 else self.rng.randrange(n)     # read-modify-write of one cell
            g1 = self.emit(['get', buf, k1], 's')
            other = ['r', self.pick_scalar()] if self.rng.random() < 0.7 else self.const()
            v = self.emit(['bin', self.rng.choice(['mul', 'add', 'mul']), ['r', g1], other], 's')
            if self.rng.random() < 0.3:
                v = self.emit(['un', self.rng.choice(['square'] if self.rational else ['sin', 'cos', 'square']), v], 's')
            self.emit(['set', buf, k2, ['r', v]])
        if not self.rational and not self.scalar_only and self.rng.random() < 0.5:
            # read-modify-write of the WHOLE buffer through a slice index: y[:] = y * c + y * y
            t1 = self.emit(['bin', 'mul', ['r', buf], ['c', self.rng.choice([0.5, -0.75, 1.25])]], ('v', n))
            t2 = self.emit(['bin', 'mul', ['r', buf], ['r', buf]], ('v', n))
            t3 = self.emit(['bin', 'add', ['r', t1], ['r', t2]], ('v', n))
            self.emit(['setsl', buf, [':'], ['r', t3]])
        extra = None
        if not self.rational and self.rng.random() < 0.4:
            # accumulator started from the integer 0 (builtin sum(), acc = 0): acc = 0 + view must be a NEW value, not the view itself,
            # because the cell is overwritten afterwards; reflected forms with the neutral elements 0 and 1 on the left
            k0 = self.rng.randrange(n)
            g0 = self.emit(['get', buf, k0], 's')
            form = self.rng.choice([['add', 0], ['add', 0.0], ['mul', 1], ['mul', 1.0]])
            acc = self.emit(['bin', form[0], ['c', form[1]], ['r', g0]], 's')
            self.emit(['set', buf, k0, ['r', self.pick_scalar()]])
            g1 = self.emit(['get', buf, k0], 's')
            extra = self.emit(['bin', 'add', ['r', acc], ['r', g1]], 's')
        outs = [self.emit(['get', buf, k], 's') for k in range(n)]
        if not self.scalar_only and self.rng.random() < 0.5:
            res = self.emit(['sum', buf], 's')
        else:
            res = self.rng.choice(outs)
        if extra is not None:
            res = self.emit(['bin', 'add', ['r', res], ['r', extra]], 's')
        return res

    def edge_block(self):
        """degenerate shapes: reductions and products over ONE-element arrays / slices and over rank-0 values, 1x1 matrices"""
        n = 3
        v = self.emit(['zeros', n], 'bufv')
        for k in range(n):
            self.emit(['set', v, k, ['r', self.pick_scalar()]])
        w = self.emit(['un', 'sin', v], ('v', n))
        w2 = self.emit(['bin', 'add', ['r', w], ['c', 1.5]], ('v', n))
        kind = self.rng.choice(['prod-slice1', 'sum-slice1', 'prod-rank0', 'prod-1x1', 'dot-1', 'trace-1x1'])
        self.tags.add('edge:' + kind)
        i = self.rng.randrange(n)
        one = self.emit(['getsl', w2, [[i, i + 1]]], ('v', 1))
        if kind == 'prod-slice1':
            r = self.emit(['prod', one], 's')
        elif kind == 'sum-slice1':
            r = self.emit(['sum', one], 's')
        elif kind == 'prod-rank0':
            sq = self.emit(['bin', 'mul', ['r', w2], ['r', w2]], ('v', n))
            r = self.emit(['prod', self.emit(['sum', sq], 's')], 's')
        elif kind == 'prod-1x1':
            r = self.emit(['prod', self.emit(['reshape', one, [1, 1]], ('m', 1, 1))], 's')
        elif kind == 'dot-1':
            r = self.emit(['dot', one, one], 's')
        else:
            r = self.emit(['trace', self.emit(['reshape', one, [1, 1]], ('m', 1, 1))], 's')
        sm = self.emit(['sum', w2], 's')
        return self.emit(['bin', 'mul', ['r', r], ['r', sm]], 's')        # used nonlinearly, next to another use of the operand

    def copy_block(self):
        """"work on a copy": c = 0 + v (or v + 0, 1 * v, v * 1, v - 0, v / 1) is a NEW value; writing into it leaves v alone and both are used"""
        n = 3
        v = self.emit(['zeros', n], 'bufv')
        for k in range(n):
            self.emit(['set', v, k, ['r', self.pick_scalar()]])
        form = self.rng.choice(['0+v', 'v+0', '1*v', 'v*1', 'v-0', 'v/1'])
        self.tags.add('copy:' + form)
        op, lhs, rhs = {'0+v': ('add', ['c', 0], ['r', v]), 'v+0': ('add', ['r', v], ['c', 0]), '1*v': ('mul', ['c', 1], ['r', v]), 'v*1': ('mul', ['r', v], ['c', 1]),
                        'v-0': ('sub', ['r', v], ['c', 0]), 'v/1': ('div', ['r', v], ['c', 1])}[form]
        c = self.emit(['bin', op, lhs, rhs], 'bufv')
        self.buf_len[c] = n
        self.emit(['set', c, 0, ['r', self.pick_scalar()]])                       # write into the copy ...
        self.emit(['set', v, 2, ['r', self.emit(['un', 'sin', self.pick_scalar()], 's')]])     # ... and into the original
        a = self.emit(['dot', v, self.emit(['un', 'sin', c], ('v', n))], 's')
        b = self.emit(['sum', self.emit(['bin', 'mul', ['r', c], ['a', [0.5, -1.0, 2.0]]], ('v', n))], 's')
        return self.emit(['bin', 'add', ['r', a], ['r', b]], 's')

    def vector_block(self):
        n = min(self.N, self.rng.randint(2, 3))
        if self.rng.random() < 0.5 and self.N >= n:
            a0 = self.rng.randint(0, self.N - n)
            v = self.emit(['xs', a0, a0 + n], ('v', n))
        else:
            v = self.emit(['zeros', n], 'bufv')
            for k in range(n):
                self.emit(['set', v, k, ['r', self.pick_scalar()]])
        r = self.rng.random()
        if r < 0.15:
            # a constant ndarray that is LARGER than the traced operand (the traced operand is the one that is broadcast), either side,
            # every operator
            op = self.rng.choice(['add', 'sub', 'mul', 'div', 'div'])
            big = [[self.rng.choice([0.5, -1.0, 2.0, 1.5, -0.25, 4.0]) for _ in range(n)] for _ in range(2)]
            small = self.rng.choice([v, self.pick_scalar()])
            a_, b_ = (['r', small], ['a', big]) if (op == 'div' or self.rng.random() < 0.6) else (['a', big], ['r', small])
            if op == 'div' and b_[0] == 'r':
                pass
            m = self.emit(['bin', op, a_, b_], ('m', 2, n))
            w = self.emit(['bin', 'mul', ['r', m], ['a', [[self.rng.choice([0.5, 1.0, -1.0, 2.0]) for _ in range(n)] for _ in range(2)]]], ('m', 2, n))
            return self.emit(['sum', w], 's')
        if r < 0.3:
            w = self.emit(['bin', 'mul', ['r', v], ['a', [self.rng.choice([0.5, -1.0, 2.0]) for _ in range(n)]]], ('v', n))
            return self.emit(['sum', w], 's')
        if r < 0.6:
            w = self.emit(['un', self.rng.choice(['sin', 'cos', 'square']), v], ('v', n))
            return self.emit(['dot', v, w], 's')
        if r < 0.7:
            # product of all elements (of a vector or of its reshape to a matrix), the operand being used elsewhere as well
            w = self.emit(['un', 'sin', v], ('v', n))
            w2 = self.emit(['bin', 'add', ['r', w], ['c', 1.5]], ('v', n))
            if n % 2 == 0 and self.rng.random() < 0.5:
                w2 = self.emit(['reshape', w2, [2, n // 2]], ('m', 2, n // 2))
            pr = self.emit(['prod', w2], 's')
            sm = self.emit(['sum', w2], 's')
            return self.emit(['bin', 'add', ['r', pr], ['r', sm]], 's')
        if r < 0.8:
            s = self.pick_scalar()
            w = self.emit(['bin', self.rng.choice(['mul', 'add']), ['r', v], ['r', s]], ('v', n))    # broadcasting scalar with vector
            return self.emit(['sum', w], 's')
        o = self.emit(['outer', v, v], ('m', n, n))
        t = self.emit(['T', o], ('m', n, n))
        rs = self.emit(['reshape', t, [n * n]], ('v', n * n))
        return self.emit(['sum', rs], 's')

    def matrix_block(self):
        n = 2
        if self.rng.random() < 0.4:
            # not diagonally dominant: which row partial pivoting picks depends on the evaluation point (and so differs between
            # directions with different base points); well conditioned all the same
            n = self.rng.choice([2, 3])
            base = {2: [[1.0, 2.0], [1.1, -2.0]], 3: [[1.0, 2.0, 0.5], [1.1, -2.0, 1.0], [0.9, 0.3, 3.0]]}[n]
            M = self.emit(['zeros2', n, n], 'bufm')
            for i in range(n):
                for j in range(n):
                    t = self.emit(['un', self.rng.choice(['sin', 'cos']), self.pick_scalar()], 's')
                    sc = self.emit(['bin', 'mul', ['r', t], ['c', 0.3]], 's')
                    e = self.emit(['bin', 'add', ['r', sc], ['c', base[i][j]]], 's')
                    self.emit(['set2', M, i, j, ['r', e]])
            r = self.rng.random()
            if r < 0.4:
                self.tags.add('pivoting:det')
                return self.emit(['det', M], 's')
            if r < 0.7:
                self.tags.add('pivoting:logdet')
                return self.emit(['logdet', M], 's')
            if r < 0.85:
                self.tags.add('pivoting:inv')
                Y = self.emit(['inv', M], ('m', n, n)); return self.emit(['trace', Y], 's')
            # distinct entries of a NON-symmetric matrix under every storage convention
            v = self.emit(['symvec', M, self.rng.choice(['F', 'L', 'U'])], ('v', n * (n + 1) // 2))
            w = self.emit(['bin', 'mul', ['r', v], ['a', [self.rng.choice([0.5, -1.0, 2.0, 1.5]) for _ in range(n * (n + 1) // 2)]]], ('v', n * (n + 1) // 2))
            s1 = self.emit(['sum', w], 's')
            if self.rng.random() < 0.5:
                S = self.emit(['vecsym', v], ('m', n, n))
                W = self.emit(['bin', 'mul', ['r', S], ['a', [[self.rng.choice([0.5, 1.0, -1.0]) for _ in range(n)] for _ in range(n)]]], ('m', n, n))
                s2 = self.emit(['sum', W], 's')
                return self.emit(['bin', 'add', ['r', s1], ['r', s2]], 's')
            return s1
        M = self.emit(['zeros2', n, n], 'bufm')
        for i in range(n):
            for j in range(n):
                t = self.emit(['un', 'sin', self.pick_scalar()], 's')
                if i == j:
                    sq = self.emit(['un', 'square', t], 's')
                    e = self.emit(['bin', 'add', ['r', sq], ['c', 2.0 + i]], 's')
                else:
                    e = self.emit(['bin', 'mul', ['r', t], ['c', 0.5]], 's')
                self.emit(['set2', M, i, j, ['r', e]])
        r = self.rng.random()
        if r < 0.25:
            Y = self.emit(['inv', M], ('m', n, n)); return self.emit(['trace', Y], 's')
        if r < 0.45:
            return self.emit(['det', M], 's')
        if r < 0.6:
            return self.emit(['logdet', M], 's')
        if r < 0.8:
            B = self.emit(['bin', 'mul', ['r', M], ['r', self.pick_scalar()]], ('m', n, n))
            X = self.emit(['solve', M, B], ('m', n, n)); return self.emit(['sum', X], 's')
        P = self.emit(['dot', M, M], ('m', n, n))
        s0 = self.emit(['sumaxis', P, self.rng.choice([0, 1, -1, -2])], ('v', n))
        w = self.emit(['bin', 'mul', ['r', s0], ['a', self.rng.sample([0.5, -1.0, 2.0, 1.5], n)]], ('v', n))     # distinct weights: the axis matters
        return self.emit(['sum', w], 's')

    def rect_block(self):
        """rectangular matrix and vectors built from scalars; dot with every operand rank mix (matrix.vector, vector.matrix,
        matrix.matrix with unequal shapes, constant ndarray on either side)"""
        r_, c_ = self.rng.choice([(2, 3), (3, 2), (2, 2), (3, 3)])
        M = self.emit(['zeros2', r_, c_], 'bufm')
        for i in range(r_):
            for j in range(c_):
                t = self.emit(['un', self.rng.choice(['sin', 'cos']), self.pick_scalar()], 's')
                self.emit(['set2', M, i, j, ['r', t]])
        def vec(n):
            v = self.emit(['zeros', n], 'bufv')
            for k in range(n):
                self.emit(['set', v, k, ['r', self.pick_scalar()]])
            return v
        def carr(*shape):
            return numpy.array([self.rng.choice([0.5, -1.0, 2.0, 1.5, -0.25]) for _ in range(int(numpy.prod(shape)))]).reshape(shape).tolist()
        kind = self.rng.choice(['mv', 'vm', 'mm', 'mc', 'cm', 'mcv', 'cvm', 'viewreshape', 'viewreshape', 'fft', 'fft', 'viewsum', 'viewsum'])
        if kind == 'viewsum':
            # reductions applied DIRECTLY to views whose axes cannot be merged (column block, transpose, strided rows, reversed rows):
            # the adjoint has to be written through the view into the parent
            views = [['getsl', M, [':', [1, None]]], ['T', M], ['getsl', M, [[0, None, 2]]], ['getsl', M, [[None, None, -1]]], ['getsl', M, [':', [None, None, -1]]]]
            acc = None
            for vi in self.rng.sample(views, 2):
                vw = self.emit(vi, 'view')
                red = self.emit(['sum', vw], 's') if self.rng.random() < 0.7 else self.emit(['prod', self.emit(['bin', 'add', ['r', vw], ['c', 1.5]], 'view')], 's')
                red = self.emit(['bin', 'mul', ['r', red], ['c', self.rng.choice([0.5, -1.0, 2.0])]], 's')
                acc = red if acc is None else self.emit(['bin', 'add', ['r', acc], ['r', red]], 's')
            w2 = self.emit(['bin', 'mul', ['r', M], ['a', carr(r_, c_)]], ('m', r_, c_))
            s2 = self.emit(['sum', w2], 's')
            return self.emit(['bin', 'add', ['r', acc], ['r', s2]], 's')
        if kind == 'viewreshape':
            # reshape / transpose of VIEWS (a row, a block of rows, a reshape of a reshape): the adjoint must flow back into the parent
            if self.rng.random() < 0.5:
                vw = self.emit(['get', M, self.rng.randrange(r_)], ('v', c_)); nel = c_
            else:
                vw = self.emit(['getsl', M, [[0, 2]]], ('m', 2, c_)); nel = 2 * c_
            r1 = self.emit(['reshape', vw, [nel, 1]], ('m', nel, 1))
            r2 = self.emit(['reshape', r1, [nel]], ('v', nel))
            z = self.emit(['bin', 'mul', ['r', r2], ['r', r2]], ('v', nel)); n = (nel,)
            # the parent is used again afterwards, so adjoints accumulate in the same cells
            w = self.emit(['bin', 'mul', ['r', z], ['a', carr(*n)]], ('a',) + n)
            s1 = self.emit(['sum', w], 's')
            w2 = self.emit(['bin', 'mul', ['r', M], ['a', carr(r_, c_)]], ('m', r_, c_))
            s2 = self.emit(['sum', w2], 's')
            return self.emit(['bin', 'add', ['r', s1], ['r', s2]], 's')
        if kind == 'fft':
            # discrete Fourier transform along an axis given by KEYWORD (recorded with the node), real or imaginary part
            ax = self.rng.choice([0, 1, -1, -2])
            z = self.emit(['fftreal', M, ax, self.rng.choice(['fft', 'ifft']), self.rng.choice(['re', 'im'])], ('m', r_, c_)); n = (r_, c_)
        elif kind == 'mv':
            z = self.emit(['dot', M, vec(c_)], ('v', r_)); n = (r_,)
        elif kind == 'vm':
            z = self.emit(['dot', vec(r_), M], ('v', c_)); n = (c_,)
        elif kind == 'mm':
            MT = self.emit(['T', M], ('m', c_, r_))
            M2 = self.emit(['un', 'square', MT], ('m', c_, r_))
            z = self.emit(['dot', M, M2], ('m', r_, r_)); n = (r_, r_)
        elif kind == 'mc':
            k_ = self.rng.choice([2, 3])
            z = self.emit(['dotc', M, carr(c_, k_)], ('m', r_, k_)); n = (r_, k_)
        elif kind == 'cm':
            k_ = self.rng.choice([2, 3])
            z = self.emit(['cdot', carr(k_, r_), M], ('m', k_, c_)); n = (k_, c_)
        elif kind == 'mcv':
            z = self.emit(['dotc', M, carr(c_)], ('v', r_)); n = (r_,)
        else:
            z = self.emit(['cdot', carr(r_), M], ('v', c_)); n = (c_,)
        w = self.emit(['bin', 'mul', ['r', z], ['a', carr(*n)]], ('a',) + n)
        return self.emit(['sum', w], 's')

    def bcast_block(self):
        """in-place writes whose right-hand side is broadcast into the target (scalar into a slice / a whole matrix, vector into rows,
        column into a block), then sums over single axes with non-uniform weights downstream"""
        r_, c_ = self.rng.choice([(2, 3), (3, 2), (2, 2)])
        B = self.emit(['zeros2', r_, c_], 'bufm')
        self.emit(['setsl', B, ['...'], ['r', self.pick_scalar()]])                    # scalar into everything
        v = self.emit(['zeros', c_], 'bufv')
        self.emit(['setsl', v, [[0, c_ - 1]], ['r', self.pick_scalar()]])            # scalar into a slice of a vector
        self.emit(['set', v, c_ - 1, ['r', self.pick_scalar()]])
        self.emit(['setsl', B, [self.rng.randrange(r_)], ['r', v]])                    # vector into a row
        col = self.emit(['zeros2', r_, 1], 'bufm')
        for i in range(r_):
            self.emit(['set2', col, i, 0, ['r', self.pick_scalar()]])
        if self.rng.random() < 0.7:
            self.emit(['setsl', B, [':', [0, 2]], ['r', col]])                         # column broadcast into a block
        if self.rng.random() < 0.5:
            self.emit(['setsl', B, [':'], ['r', v]])                                   # vector broadcast over all rows
            self.emit(['set2', B, 0, 0, ['r', self.pick_scalar()]])
        ax = self.rng.choice([0, 1, -1, -2])
        n_out = c_ if ax in (0, -2) else r_
        s0 = self.emit(['sumaxis', B, ax], ('v', n_out))
        w = self.emit(['bin', 'mul', ['r', s0], ['a', self.rng.sample([0.5, -1.0, 2.0, 1.5, -0.25], n_out)]], ('v', n_out))
        return self.emit(['sum', w], 's')

    def nd_block(self):
        """rank-3 intermediate values: an (n,1,d) operand combined with a (k,d) / (n,k,1) / (1,k,d) constant or traced operand - broadcasting
        along an INTERIOR axis (pairwise differences x_i - c_j), every operator, either side; reductions with non-uniform weights"""
        n, k, d = self.rng.choice([(2, 2, 2), (2, 3, 2), (3, 2, 2), (2, 2, 3)])
        M = self.emit(['zeros2', n, d], 'bufm')
        for i in range(n):
            for j in range(d):
                t = self.emit(['un', self.rng.choice(['sin', 'cos']), self.pick_scalar()], 's')
                self.emit(['set2', M, i, j, ['r', self.emit(['bin', 'add', ['r', t], ['c', 1.5 + 0.5 * i + 0.25 * j]], 's')]])
        R = self.emit(['reshape', M, [n, 1, d]], 'view')
        op = self.rng.choice(['sub', 'add', 'mul', 'div', 'sub'])
        cshape = self.rng.choice([(k, d), (1, k, d), (n, k, 1)])
        C = (numpy.arange(int(numpy.prod(cshape)), dtype=float).reshape(cshape) * 0.25 + 0.5).tolist()
        self.tags.add('nd:%s:%s' % (op, 'x'.join(map(str, cshape))))
        if self.rng.random() < 0.7 or op == 'div':
            T = self.emit(['bin', op, ['r', R], ['a', C]], 'view')
        else:
            T = self.emit(['bin', op, ['a', C], ['r', R]], 'view')
        W = (numpy.arange(n * k * d, dtype=float).reshape((n, k, d)) % 5 * 0.5 - 0.75).tolist()
        Q = self.emit(['bin', 'mul', ['r', self.emit(['bin', 'mul', ['r', T], ['r', T]], 'view')], ['a', W]], 'view')
        return self.emit(['sum', Q], 's')

    def fact_block(self):
        """symmetric positive definite 2x2 or 3x3 matrix built from scalars, then eigh / qr / cholesky; uniquely defined outputs only"""
        n = self.rng.choice([2, 2, 3])
        M = self.emit(['zeros2', n, n], 'bufm')
        offd = {}
        for i in range(n):
            for j in range(i, n):
                t = self.emit(['un', 'sin', self.pick_scalar()], 's')
                if i == j:
                    sq = self.emit(['un', 'square', t], 's')
                    e = self.emit(['bin', 'add', ['r', sq], ['c', 2.0 + 2.5 * i]], 's')
                    self.emit(['set2', M, i, i, ['r', e]])
                else:
                    e = self.emit(['bin', 'mul', ['r', t], ['c', 0.5]], 's')
                    self.emit(['set2', M, i, j, ['r', e]]); self.emit(['set2', M, j, i, ['r', e]])
        kind = self.rng.choice(['eigh', 'eigh', 'cholesky', 'qr', 'lu', 'svd', 'qr_full_T'])
        if kind == 'qr_full_T':
            # full QR of a TRANSPOSED view (matrix slices that are Fortran contiguous), |R_ij| is unique
            Mt = self.emit(['T', M], ('m', n, n))
            qr = self.emit(['qr_full', Mt], 'tuple')
            R = self.emit(['tget', qr, 1], ('m', n, n))
            R2 = self.emit(['un', 'square', R], ('m', n, n))
            W = self.emit(['bin', 'mul', ['r', R2], ['a', [[self.rng.choice([0.5, 1.0, -1.0]) for _ in range(n)] for _ in range(n)]]], ('m', n, n))
            return self.emit(['sum', W], 's')
        if kind == 'lu':
            # W, L, U = lu(M): both triangular factors enter the result, with weights on every entry (the unit diagonal of L included)
            wlu = self.emit(['lu', M], 'tuple')
            L = self.emit(['tget', wlu, 1], ('m', n, n)); U = self.emit(['tget', wlu, 2], ('m', n, n))
            WL = self.emit(['bin', 'mul', ['r', L], ['a', [[self.rng.choice([0.5, 1.0, -1.0, 2.0]) for _ in range(n)] for _ in range(n)]]], ('m', n, n))
            WU = self.emit(['bin', 'mul', ['r', U], ['a', [[self.rng.choice([0.5, 1.0, -1.0, 1.5]) for _ in range(n)] for _ in range(n)]]], ('m', n, n))
            s1 = self.emit(['sum', WL], 's'); s2 = self.emit(['sum', WU], 's')
            return self.emit(['bin', 'add', ['r', s1], ['r', s2]], 's')
        if kind == 'svd':
            usv = self.emit(['svd', M], 'tuple')
            sv = self.emit(['tget', usv, 1], ('v', n))
            w = self.emit(['bin', 'mul', ['r', sv], ['a', self.rng.sample([0.5, -1.0, 2.0, 1.5], n)]], ('v', n))
            return self.emit(['sum', w], 's')
        if kind == 'eigh':
            lq = self.emit(['eigh', M], 'tuple')
            lam = self.emit(['tget', lq, 0], ('v', n))
            w = self.emit(['bin', 'mul', ['r', lam], ['a', [self.rng.choice([0.5, -1.0, 2.0, 1.5]) for _ in range(n)]]], ('v', n))
            s1 = self.emit(['sum', w], 's')
            if self.rng.random() < 0.5:
                # Q is defined up to the sign of its columns: use the sign-invariant Q diag(c) Q^T
                Q = self.emit(['tget', lq, 1], ('m', n, n))
                QT = self.emit(['T', Q], ('m', n, n))
                D1 = self.emit(['bin', 'mul', ['r', Q], ['a', self.rng.sample([1.0, 2.0, -0.5, 0.75], n)]], ('m', n, n))      # distinct weights: equal ones give c I, independent of Q
                P = self.emit(['dot', D1, QT], ('m', n, n))
                W = self.emit(['bin', 'mul', ['r', P], ['a', [[self.rng.choice([0.5, 1.0, -1.0]) for _ in range(n)] for _ in range(n)]]], ('m', n, n))
                s2 = self.emit(['sum', W], 's')
                return self.emit(['bin', 'add', ['r', s1], ['r', s2]], 's')
            return s1
        if kind == 'cholesky':
            L = self.emit(['cholesky', M], ('m', n, n))
            W = self.emit(['bin', 'mul', ['r', L], ['a', [[self.rng.choice([0.5, 1.0, -1.0]) for _ in range(n)] for _ in range(n)]]], ('m', n, n))
            return self.emit(['sum', W], 's')
        qr = self.emit(['qr', M], 'tuple')
        R = self.emit(['tget', qr, 1], ('m', n, n))
        R2 = self.emit(['un', 'square', R], ('m', n, n))         # |R_ij| is unique, the signs of the rows of R are a convention
        W = self.emit(['bin', 'mul', ['r', R2], ['a', [[self.rng.choice([0.5, 1.0, -1.0]) for _ in range(n)] for _ in range(n)]]], ('m', n, n))
        return self.emit(['sum', W], 's')

    def build(self, length, nout=1):
        for i in range(self.N):
            if self.rng.random() < 0.8:
                self.emit(['x', i], 's')
        outs = []
        while len(self.instrs) < length:
            r = self.rng.random()
            if self.focus == 'linalg' and not self.scalar_only and self.linalg and r < 0.6:
                # programs dominated by array-level blocks (pivoting LU, factorizations, rectangular dot, symvec/vecsym)
                q = self.rng.random()
                outs.append(self.matrix_block() if q < 0.5 else (self.fact_block() if (q < 0.7 and self.facts) else (self.rect_block() if q < 0.85 else self.vector_block())))
                continue
            if self.buffers and r < 0.2:
                outs.append(self.buffer_block())
            elif not self.scalar_only and r < 0.32:
                outs.append(self.vector_block())
            elif not self.scalar_only and self.linalg and r < 0.4:
                outs.append(self.matrix_block())
            elif not self.scalar_only and self.linalg and self.facts and r < 0.46:
                outs.append(self.fact_block())
            elif not self.scalar_only and self.linalg and r < 0.52 and not self.traced_pow:
                outs.append(self.rect_block())
            elif not self.scalar_only and self.buffers and r < 0.57 and not self.traced_pow:
                outs.append(self.bcast_block())
            elif self.traced_pow and r < 0.52:
                a = self.pick_scalar(); b = self.pick_scalar()
                sq = self.emit(['un', 'square', a], 's')
                base = self.emit(['bin', 'add', ['r', sq], ['c', 1.0]], 's')
                ex = self.emit(['un', 'sin', b], 's')
                self.emit(['powr', base, ex], 's')
            else:
                self.scalar_step()
        # outputs: combine block results and late scalars so that everything contributes
        sc = self.scalars()
        acc = sc[-1]
        for o in outs + [self.rng.choice(sc) for _ in range(2)]:
            acc = self.emit(['bin', self.rng.choice(['add', 'mul', 'add']), ['r', acc], ['r', o]], 's')
        ret = [acc]
        for _ in range(nout - 1):
            a = self.rng.choice(self.scalars())
            ret.append(self.emit(['bin', 'add', ['r', a], ['r', self.rng.choice(self.scalars())]], 's'))
        if self.trailing:
            self.trailing_work()
        return dict(N=self.N, instrs=self.instrs, ret=ret)

    def trailing_work(self):
        """the program goes on AFTER its outputs were formed (time stepping beyond the step that is differentiated, logging, clean-up):
        cells of buffers that earlier operations read are overwritten again, further values are computed; none of it reaches an output"""
        self.tags.add('trailing')
        bufs = [r for r, k in enumerate(self.kind) if k == 'bufv']
        for b in bufs[:3]:
            n = self.buf_len.get(b, 0)
            for k in range(n):
                self.emit(['set', b, k, ['r', self.pick_scalar()]])
        for _ in range(2):
            t = self.emit(['un', self.rng.choice(['sin', 'cos', 'square']), self.pick_scalar()], 's')
            self.emit(['bin', 'mul', ['r', t], ['r', self.pick_scalar()]], 's')


def gen_prog(rng, ap, N=None, length=None, nout=1, scalar_only=False, buffers=True, linalg=True, tries=50, rational=False, facts=True, traced_pow=False, focus=None):
    """generate a program whose values stay moderate at a few test points"""
    for _ in range(tries):
        n = N or rng.randint(1, 4)
        g = Gen(rng, n, scalar_only=scalar_only or rational, buffers=buffers, linalg=linalg, rational=rational, facts=facts, traced_pow=traced_pow, focus=focus)
        g.trailing = buffers and rng.random() < 0.25
        prog = g.build(length or rng.randint(4, 22), nout=nout)
        ok = True
        for _t in range(3):
            x = numpy.array([rng.randint(-8, 8) / 4 for _ in range(n)])
            try:
                with numpy.errstate(all='ignore'):
                    ys = run(prog, x, ap)
                vals = numpy.array([float(numpy.asarray(y)) for y in ys])
                if not numpy.all(numpy.isfinite(vals)) or numpy.max(numpy.abs(vals)) > 1e4:
                    ok = False
            except Exception:
                ok = False
        if ok:
            return prog
    raise RuntimeError('could not generate a program')


def rand_point(rng, N):
    return numpy.array([rng.randint(-8, 8) / 4 for _ in range(N)])


def rand_utpm_data(rng, D, P, N, base=None):
    d = numpy.array([rng.randint(-8, 8) / 4 for _ in range(D * P * N)]).reshape((D, P, N))
    if base is not None:
        d[0, :] = base
    return d


def has_buffer(prog):
    return any(i[0] in ('zeros', 'zeros2') for i in prog['instrs'])


def to_text(prog):
    return '; '.join(repr(i) for i in prog['instrs']) + ' -> ' + repr(prog['ret'])


def run_vec(prog, x, ap):
    """the outputs of `prog` assembled into ONE vector-valued result (what the M>1 drivers need)"""
    ys = run(prog, x, ap)
    out = ap.zeros(len(ys), dtype=x)
    for k, y in enumerate(ys):
        out[k] = y
    return out


def kernel_programs(rng, ap, reps=2):
    """small programs that exercise EVERY pullback kernel the generator knows at least `reps` times, independent of what the random
    program composition happens to pick: one per unary function, per power exponent, and several per array-level block"""
    out = []

    def finish(g, r):
        sc = g.scalars()
        acc = g.emit(['bin', 'mul', ['r', r], ['r', sc[0]]], 's')
        acc = g.emit(['bin', 'add', ['r', acc], ['r', r]], 's')
        return dict(N=g.N, instrs=g.instrs, ret=[acc])

    def start(N=2):
        g = Gen(rng, N)
        for i in range(N):
            g.emit(['x', i], 's')
        s = g.emit(['un', 'sin', 0], 's')
        a = g.emit(['bin', 'mul', ['r', s], ['r', 1 % N]], 's')
        return g, a

    for _ in range(reps):
        for f in UN_ANY:
            g, a = start()
            if f in ('exp', 'expm1'):
                a = g.emit(['un', 'sin', a], 's')
            out.append(('un:' + f, finish(g, g.emit(['un', f, a], 's'))))
        for f in UN_ANY + ['log1p']:
            # applied DIRECTLY to a product of inputs (no bounded wrapper, no shift): with inputs of small magnitude the argument
            # itself is small, where (x + c) - c style temporaries lose digits
            g = Gen(rng, 2)
            g.emit(['x', 0], 's'); g.emit(['x', 1], 's')
            a = g.emit(['bin', 'mul', ['r', 0], ['r', 1]], 's')
            a = g.emit(['bin', 'mul', ['r', a], ['c', 0.0625]], 's')          # |a| <= 1/4 on the generator's input range
            out.append(('un-direct:' + f, finish(g, g.emit(['un', f, a], 's'))))
        for f in UN_POS:
            g, a = start()
            sq = g.emit(['un', 'square', a], 's')
            pos = g.emit(['bin', 'add', ['r', sq], ['c', rng.choice([0.5, 1.0, 2.0])]], 's')
            out.append(('un:' + f, finish(g, g.emit(['un', f, pos], 's'))))
        for p in [2, 3, 4, 6, 7, 0.5, 1.5, -1, -2, -3]:
            g, a = start()
            sq = g.emit(['un', 'square', a], 's')
            b = g.emit(['bin', 'add', ['r', sq], ['c', 1.0]], 's')
            out.append(('pow:%s' % p, finish(g, g.emit(['pow', b, p], 's'))))
        for op in ['add', 'sub', 'mul', 'div']:
            for form in ['rr', 'rc', 'cr']:
                g, a = start()
                sq = g.emit(['un', 'square', 1], 's')
                den = g.emit(['bin', 'add', ['r', sq], ['c', 1.5]], 's')
                l = ['r', a] if form[0] == 'r' else ['c', 1.75]
                r_ = ['r', den] if form[1] == 'r' else ['c', -2.5]
                out.append(('bin:%s:%s' % (op, form), finish(g, g.emit(['bin', op, l, r_], 's'))))
        # the constants that invite shortcuts (1/x, x*1, x+0, x*0, x/1, -1*x, 2*x ...), as Python ints and as floats, on either side
        for op in ['add', 'sub', 'mul', 'div']:
            for form in ['rc', 'cr']:
                for c in [1, 1.0, 0.0, -1, 2]:
                    if op == 'div' and form == 'rc' and c == 0:
                        continue
                    g, a = start()
                    sq = g.emit(['un', 'square', 1], 's')
                    den = g.emit(['bin', 'add', ['r', sq], ['c', 1]], 's')      # integer-valued (and of integer dtype) at integer points
                    l = ['r', den] if form[0] == 'r' else ['c', c]
                    r_ = ['r', den] if form[1] == 'r' else ['c', c]
                    out.append(('bin-special:%s:%s:%r' % (op, form, c), finish(g, g.emit(['bin', op, l, r_], 's'))))
    def features(instrs):
        # an instruction kind together with its discrete parameters (function name, operator, storage convention, axis, ...)
        fs = set()
        for ins in instrs:
            fs.add(ins[0] + ''.join(':%s' % (v,) for v in ins[1:] if isinstance(v, str) or (ins[0] in ('sumaxis', 'symvec', 'prod', 'T') and isinstance(v, int))))
        return fs

    for name, k in [('buffer_block', 8), ('vector_block', 8), ('matrix_block', 14), ('rect_block', 10), ('fact_block', 8), ('bcast_block', 6), ('edge_block', 6), ('nd_block', 8), ('copy_block', 6)]:
        # every branch of a block, not whatever a handful of draws happens to pick: keep drawing blocks (cheap, nothing is evaluated
        # here) and keep each one that shows an instruction/parameter combination not seen so far, besides the first k
        want = k * reps // 2 if reps > 1 else k
        seen, kept, dry = set(), 0, 0
        while dry < 200 and kept < 8 * k:
            g, a = start(N=rng.randint(2, 4))
            prog = finish(g, getattr(g, name)())
            fs = features(prog['instrs']) | g.tags
            if kept < want or not fs <= seen:
                out.append((name + (':pivoting' if any(t.startswith('pivoting') for t in g.tags) else ''), prog)); kept += 1
                dry = 0 if not fs <= seen else dry + 1
                seen |= fs
            else:
                dry += 1
    # the same blocks once more with work going on after the outputs were formed
    for name in ('buffer_block', 'vector_block', 'bcast_block'):
        for _ in range(4 if reps == 1 else 4 * reps // 2):
            g, a = start(N=rng.randint(2, 4))
            r = getattr(g, name)()
            sc = g.scalars()
            acc = g.emit(['bin', 'mul', ['r', r], ['r', sc[0]]], 's')
            acc = g.emit(['bin', 'add', ['r', acc], ['r', r]], 's')
            g.trailing_work()
            out.append((name + ':trailing', dict(N=g.N, instrs=g.instrs, ret=[acc])))
    return out
