"""C08 -- matrix factorizations satisfy their defining equations modulo t^D.
Theorems: Props/C08.v (lifting steps for Cholesky / LU / square QR in Matrix.v).
Correspondence: implementation vs the Coq models cholU / luU / qrU (base factors from NumPy/SciPy, exactly as the implementation
takes them).  Model-free predicates evaluated with exact rational series arithmetic on the implementation output: the defining
equations of every factorization (QR reduced/full square/tall/wide, Cholesky, LU, eigh distinct and exactly repeated eigenvalues
with splitting at a chosen order, eig (D<=2), svd), triangular structure, ordering, and the base-point factors against NumPy/SciPy."""
import json, itertools
from fractions import Fraction
import numpy, scipy.linalg
import lib, exact
from lib import Report, qlit
from exact import PS, Cx
from c07 import dy, mxlit, serlit, obj_mats, ps_residual, scale_of

PID = 'C08'
IMPORTS = 'QcField Sums Series Matrix QRTall Eigh QRFull'
DEFS = """
Definition mxs_close (tol : Qc) (n m : nat) (a b : seq (mx K)) : bool :=
  (size a == size b) && all (fun ab => Qc_allclose tol (flatten (mkmx n m (mxget ab.1))) (flatten (mkmx n m (mxget ab.2)))) (zip a b).
"""
F = Fraction



_LAYOUTS = itertools.cycle(['C', 'C', 'F', 'T', 'C', 'T'])


def mkU(a):
    """UTPM over a copy of `a` in a memory layout that cycles through C order, Fortran order and transposed trailing axes: the kernels
    must not depend on the coefficient array being C-contiguous"""
    import algopy
    return algopy.UTPM(lib.relayout(numpy.array(a, copy=True), next(_LAYOUTS)))


def rand_orth(rng, n):
    """rational orthogonal matrix via Cayley transform of a small skew matrix"""
    S = numpy.zeros((n, n))
    for i in range(n):
        for j in range(i + 1, n):
            S[i, j] = rng.randint(-3, 3) / 4
            S[j, i] = -S[i, j]
    I = numpy.eye(n)
    return numpy.linalg.solve(I + S, I - S)


def series_mul(A, B, D):
    C = [numpy.zeros_like(A[0] @ B[0]) for _ in range(D)]
    for d in range(D):
        for c in range(d + 1):
            C[d] = C[d] + A[c] @ B[d - c]
    return C


def split_at_fn(rng, n, D, s):
    """symmetric A(t) = Q(t) Lambda(t) Q(t)^T whose two smallest eigenvalue polynomials agree in orders < s and differ at order s"""
    Q0 = rand_orth(rng, n)
    S = numpy.zeros((n, n))
    for i in range(n):
        for j in range(i + 1, n):
            S[i, j] = rng.randint(-2, 2) / 4; S[j, i] = -S[i, j]
    geo = [numpy.linalg.matrix_power(-S, k) for k in range(D)]
    IS = ([numpy.eye(n), -S] + [numpy.zeros((n, n))] * D)[:D]
    Qt = [Q0 @ q for q in series_mul(IS, geo, D)]
    base = sorted(rng.sample([-3, -1, 1, 3, 5], n - 1))
    Lam = [numpy.diag(sorted(base + [base[0]]))]
    for d in range(1, D):
        L = numpy.diag([rng.randint(-4, 4) / 4 for _ in range(n)])
        if d < s:
            L[1, 1] = L[0, 0]
        elif d == s:
            L[1, 1] = L[0, 0] + rng.choice([1.0, 1.5, -1.0])
        Lam.append(L)
    A = series_mul(series_mul(Qt, Lam, D), [q.T for q in Qt], D)
    A = numpy.array(A)
    return 0.5 * (A + A.transpose((0, 2, 1)))


def tpose(objs):
    return [a.T for a in objs]


def const_obj(M, D):
    return exact.const_to_obj(numpy.asarray(M, dtype=float), D)


def struct_residual(data, mask):
    """largest |entry| of data where mask (N x M bool) is True, over all d, p"""
    return float(numpy.max(numpy.abs(data[:, :, mask]))) if mask.any() else 0.0


_EIGH_FORM = [0]


def check_eigh(ap, rep, viol, Ad, meta, spec, split):
    UTPM = ap.UTPM
    D, P, n = Ad.shape[0], Ad.shape[1], Ad.shape[2]
    try:
        _EIGH_FORM[0] += 1
        if _EIGH_FORM[0] % 3 == 0:
            # call form with caller-supplied, prefilled result buffers (reused preallocated results)
            l = UTPM(numpy.full((D, P, n), 7.25)); Q = UTPM(numpy.full((D, P, n, n), -3.5))
            UTPM.eigh(mkU(Ad), out=(l, Q))
            rep.count('call form', 'eigh(A, out=(prefilled l, prefilled Q))')
        else:
            l, Q = ap.eigh(mkU(Ad))
        ld, Qd = numpy.asarray(l.data), numpy.asarray(Q.data)
        Ao, Qo = obj_mats(Ad), obj_mats(Qd)
        lo = obj_mats(ld)
        etol = 1e-9 * 4 ** D * scale_of(Ad) ** 2
        bad = None
        for p in range(P):
            Lam = numpy.empty((n, n), dtype=object)
            for i in range(n):
                for j in range(n):
                    Lam[i, j] = lo[p][i] if i == j else PS.const(0, D)
            r1 = ps_residual([numpy.dot(Ao[p], Qo[p]) - numpy.dot(Qo[p], Lam)])
            r2 = ps_residual([numpy.dot(Qo[p].T, Qo[p]) - const_obj(numpy.eye(n), D)])
            if float(r1) > etol or float(r2) > etol:
                bad = 'residuals AQ-Q diag(l) %.2g, Q^TQ-I %.2g' % (float(r1), float(r2)); break
            if numpy.any(numpy.diff(ld[0, p]) < -1e-9):
                bad = 'lambda_0 is not ascending'; break
            if not numpy.allclose(ld[0, p], numpy.linalg.eigh(Ad[0, p])[0], atol=1e-9):
                bad = 'lambda_0 differs from numpy.linalg.eigh'; break
        if bad:
            viol('eigh:%s' % spec, 'eigh (%s eigenvalues%s, n=%d, D=%d): %s' % (spec, ', splitting at order %d' % split if split else '', n, D, bad), meta)
    except Exception as e:
        viol('eigh:%s:exception:%s' % (spec, type(e).__name__), 'eigh (%s, n=%d, D=%d) raises %r' % (spec, n, D, e), meta, exc=repr(e))


def main(tier, seed):
    algopy = lib.import_algopy()
    UTPM = algopy.UTPM
    rep = Report(PID, tier, seed)
    rep.rule = ('qr (square, tall, wide), qr_full (square, tall), cholesky (SPD base), lu (row pivoting forced), eigh (distinct base eigenvalues; '
                'exactly repeated base eigenvalues with the splitting introduced at order 1 or 2), eig (D<=2), svd (square/tall/wide, distinct '
                'singular values); different base matrices per direction, arbitrary higher coefficients, sizes <=4, D<=5 (quick 4), P<=2; '
                'non-trivial = D>=2 and size>=2; distinct by full case content')
    rep.assumptions = ['base-point factorizations come from NumPy/SciPy/LAPACK (inputs of the model); they are compared with the direct NumPy/SciPy call',
                       'eigen-type problems amplify rounding by 1/gap^D: base spectra are constructed with gaps >= 1 and tolerances scale with D',
                       'eigh with repeated eigenvalues, eig and svd have no model in Coq: defining equations only (validation, not proof)']
    rep.theorems()
    rng = lib.rng_for(seed, PID)
    terms, metas = [], []
    N = 14 if tier == 'quick' else 200
    Dmax = 4 if tier == 'quick' else 6
    TOL = 1e-10

    def case(kind, meta, nontriv):
        rep.count('kind', kind)
        rep.case((kind, json.dumps(meta, sort_keys=True, default=str)), nontriv, sample={k: meta[k] for k in meta if k not in ('A',)})

    def viol(key, what, meta, **kw):
        rep.violation(key, what, dict(kind='factorization', case=meta, **kw))

    def hi(rngl, D, P, n, m):
        a = numpy.zeros((D, P, n, m))
        for idx in numpy.ndindex(*a.shape):
            a[idx] = dy(rngl)
        # whole higher coefficients that vanish in a direction: kernels that shortcut on "unperturbed" input.  Scheduled, not left to
        # chance: every 4th iteration the FIRST order vanishes in direction 0 while higher orders do not (A(t) = A_0 + A_2 t^2 + ...),
        # every other 4th iteration random blocks vanish
        if zero_mode[0] == 'first' and D >= 3:
            a[1, 0] = 0
            rep.count('zero coefficient blocks', 'first order of direction 0')
        elif zero_mode[0] == 'late' and D >= 3:
            a[2, 0] = 0                      # A0 + A1 t (+ A3 t^3): an order >= 2 vanishes while a lower one does not
            rep.count('zero coefficient blocks', 'second order of direction 0')
        elif zero_mode[0] == 'random':
            for p_ in range(P):
                for d_ in range(1, D):
                    if rngl.random() < 0.5:
                        a[d_, p_] = 0
            rep.count('zero coefficient blocks', 'random')
        return a

    zero_mode = [None]
    for it_ in range(N):
        zero_mode[0] = {1: 'first', 2: 'late', 3: 'random'}.get(it_ % 4)
        D = rng.randint(3 if zero_mode[0] in ('first', 'late') else 1, Dmax); P = rng.randint(1, 2)
        tol = TOL * 4 ** D          # observed residuals are ~1e-14; a wrong coefficient is O(1e-3) or more
        # ================================================================= QR (reduced)
        for shape_kind in ('square', 'tall', 'wide'):
            n = rng.randint(1, 4)
            M_, N_ = (n, n) if shape_kind == 'square' else ((n + rng.randint(1, 2), n) if shape_kind == 'tall' else (n, n + rng.randint(1, 2)))
            Ad = hi(rng, D, P, M_, N_)
            for p in range(P):
                Q0 = rand_orth(rng, M_)
                R0 = numpy.triu(numpy.array([[dy(rng) for _ in range(N_)] for _ in range(M_)]))
                for i in range(min(M_, N_)):
                    R0[i, i] = rng.choice([-2, -1.5, 1, 1.5, 2, 3])
                Ad[0, p] = Q0 @ R0
            if rng.random() < 0.25:
                Ad = Ad * 2.0 ** -30          # the same problem at a tiny scale (exact scaling): rank decisions must not use absolute thresholds near 1e-8
                rep.count('tiny scale', 'qr')
            meta = dict(op='qr', shape=shape_kind, M=M_, N=N_, D=D, P=P, A=Ad.tolist())
            case('qr:' + shape_kind, meta, D >= 2 and n >= 2)
            try:
                Q, R = algopy.qr(mkU(Ad))
                Qd, Rd = numpy.asarray(Q.data), numpy.asarray(R.data)
                K_ = min(M_, N_)
                if Qd.shape != (D, P, M_, K_) or Rd.shape != (D, P, K_, N_):
                    viol('qr:%s:shape' % shape_kind, 'qr (%s): factor shapes %s, %s' % (shape_kind, Qd.shape[2:], Rd.shape[2:]), meta); continue
                Ao, Qo, Ro = obj_mats(Ad), obj_mats(Qd), obj_mats(Rd)
                r1 = max(ps_residual([numpy.dot(Qo[p], Ro[p]) - Ao[p]]) for p in range(P))
                r2 = max(ps_residual([numpy.dot(Qo[p].T, Qo[p]) - const_obj(numpy.eye(K_), D)]) for p in range(P))
                low = numpy.tril(numpy.ones((K_, N_), dtype=bool), -1)
                r3 = struct_residual(Rd, low)
                sc = scale_of(Ad) ** 2
                if float(r1) > tol * sc or float(r2) > tol * sc or r3 > tol * sc:
                    viol('qr:%s' % shape_kind, 'qr (%s %dx%d, D=%d): residuals QR-A %.2g, Q^TQ-I %.2g, below-diagonal R %.2g' % (shape_kind, M_, N_, D, float(r1), float(r2), r3), meta)
                    continue
                for p in range(P):
                    q0, r0 = numpy.linalg.qr(Ad[0, p])
                    if not (numpy.array_equal(Qd[0, p], q0) and numpy.array_equal(Rd[0, p], r0)):
                        if shape_kind != 'wide' or not numpy.allclose(Qd[0, p], numpy.linalg.qr(Ad[0, p][:, :M_])[0]):
                            viol('qr:%s:base' % shape_kind, 'qr (%s): zeroth coefficients are not the factors numpy.linalg.qr returns' % shape_kind, meta); break
                    if shape_kind == 'square' and n >= 1:
                        rinv = numpy.linalg.inv(r0)
                        QR = '(qrU %d %s %s %s %s)' % (n, serlit(Ad, p), mxlit(q0), mxlit(r0), mxlit(rinv))
                        terms.append('(mxs_close %s %d %d [seq qr.1 | qr <- %s] %s && mxs_close %s %d %d [seq qr.2 | qr <- %s] %s)'
                                     % (qlit(F(tol * sc)), n, n, QR, serlit(Qd, p), qlit(F(tol * sc)), n, n, QR, serlit(Rd, p)))
                        metas.append(dict(model='qrU', n=n, D=D, direction=p))
                    if shape_kind == 'tall' and N_ <= 3 and M_ <= 5 and D <= 4:      # exact rational evaluation grows fast with m n D; larger cases: predicates above
                        # the proved tall-QR model (C08_qrtM_spec / C08_qrtU_refines), base factors as numpy.linalg.qr / inv return them
                        rinv = numpy.linalg.inv(r0)
                        QR = '(qrtU %d %d %s %s %s %s)' % (M_, N_, serlit(Ad, p), mxlit(q0), mxlit(r0), mxlit(rinv))
                        terms.append('(mxs_close %s %d %d [seq qr.1 | qr <- %s] %s && mxs_close %s %d %d [seq qr.2 | qr <- %s] %s)'
                                     % (qlit(F(tol * sc)), M_, N_, QR, serlit(Qd, p), qlit(F(tol * sc)), N_, N_, QR, serlit(Rd, p)))
                        metas.append(dict(model='qrtU', n=N_, D=D, direction=p))
            except Exception as e:
                viol('qr:%s:exception:%s' % (shape_kind, type(e).__name__), 'qr (%s %dx%d) raises %r' % (shape_kind, M_, N_, e), meta, exc=repr(e))
        # ================================================================= qr_full
        n = rng.randint(1, 3); M_ = n + rng.randint(0, 2)
        Ad = hi(rng, D, P, M_, n)
        for p in range(P):
            Q0 = rand_orth(rng, M_)
            R0 = numpy.zeros((M_, n)); R0[:n] = numpy.triu(numpy.array([[dy(rng) for _ in range(n)] for _ in range(n)]))
            for i in range(n):
                R0[i, i] = rng.choice([-2, 1, 1.5, 3])
            Ad[0, p] = Q0 @ R0
        meta = dict(op='qr_full', M=M_, N=n, D=D, P=P, A=Ad.tolist())
        case('qr_full', meta, D >= 2 and n >= 2)
        try:
            Q, R = algopy.qr_full(mkU(Ad))
            Qd, Rd = numpy.asarray(Q.data), numpy.asarray(R.data)
            Ao, Qo, Ro = obj_mats(Ad), obj_mats(Qd), obj_mats(Rd)
            r1 = max(ps_residual([numpy.dot(Qo[p], Ro[p]) - Ao[p]]) for p in range(P))
            r2 = max(ps_residual([numpy.dot(Qo[p].T, Qo[p]) - const_obj(numpy.eye(M_), D)]) for p in range(P))
            r3 = struct_residual(Rd, numpy.tril(numpy.ones((M_, n), dtype=bool), -1))
            sc = scale_of(Ad) ** 2
            if Qd.shape != (D, P, M_, M_) or Rd.shape != (D, P, M_, n) or float(r1) > tol * sc or float(r2) > tol * sc or r3 > tol * sc:
                viol('qr_full', 'qr_full (%dx%d, D=%d): residuals QR-A %.2g, Q^TQ-I %.2g, below-diagonal R %.2g' % (M_, n, D, float(r1), float(r2), r3), meta)
            elif M_ <= 4 and D <= 4:
                # the proved full-QR model (C08_qrfM_spec / C08_qrfU_refines) from the base factors the implementation uses
                for p in range(P):
                    q0, r0 = Qd[0, p], Rd[0, p]
                    rinv = numpy.linalg.inv(r0[:n, :])
                    QR = '(qrfU %d %d %s %s %s %s)' % (M_, n, serlit(Ad, p), mxlit(q0), mxlit(r0), mxlit(rinv))
                    terms.append('(mxs_close %s %d %d [seq qr.1 | qr <- %s] %s && mxs_close %s %d %d [seq qr.2 | qr <- %s] %s)'
                                 % (qlit(F(tol * sc)), M_, M_, QR, serlit(Qd, p), qlit(F(tol * sc)), M_, n, QR, serlit(Rd, p)))
                    metas.append(dict(model='qrfU', n=n, D=D, direction=p))
        except Exception as e:
            viol('qr_full:exception:%s' % type(e).__name__, 'qr_full (%dx%d) raises %r' % (M_, n, e), meta, exc=repr(e))
        # ================================================================= Cholesky
        n = rng.randint(1, 4)
        Ad = hi(rng, D, P, n, n)
        Ad = Ad + Ad.transpose((0, 1, 3, 2))
        for p in range(P):
            L0 = numpy.tril(numpy.array([[dy(rng) for _ in range(n)] for _ in range(n)]), -1) + numpy.diag([rng.choice([1, 1.5, 2, 3]) for _ in range(n)])
            Ad[0, p] = L0 @ L0.T
        meta = dict(op='cholesky', n=n, D=D, P=P, A=Ad.tolist())
        case('cholesky', meta, D >= 2 and n >= 2)
        try:
            if it_ % 2 == 1:
                # call form with a caller-supplied result buffer holding stale non-zero content (a reused preallocated result)
                buf = algopy.UTPM(7.25 + numpy.arange(Ad.size, dtype=float).reshape(Ad.shape) / 3)
                algopy.UTPM.cholesky(mkU(Ad), out=buf); Ld = numpy.asarray(buf.data)
                rep.count('call form', 'cholesky(A, out=prefilled buffer)')
            else:
                Ld = numpy.asarray(algopy.cholesky(mkU(Ad)).data)
            Ao, Lo = obj_mats(Ad), obj_mats(Ld)
            r1 = max(ps_residual([numpy.dot(Lo[p], Lo[p].T) - Ao[p]]) for p in range(P))
            r3 = struct_residual(Ld, numpy.triu(numpy.ones((n, n), dtype=bool), 1))
            sc = scale_of(Ad) ** 2
            if float(r1) > tol * sc or r3 > tol * sc:
                viol('cholesky', 'cholesky (n=%d, D=%d): residuals LL^T-A %.2g, above-diagonal L %.2g' % (n, D, float(r1), r3), meta)
            else:
                for p in range(P):
                    l0 = numpy.linalg.cholesky(Ad[0, p])
                    if not numpy.array_equal(Ld[0, p], l0):
                        viol('cholesky:base', 'cholesky: zeroth coefficient is not numpy.linalg.cholesky(A_0)', meta); break
                    terms.append('(mxs_close %s %d %d (cholU %d %s %s %s) %s)' % (qlit(F(tol * sc)), n, n, n, serlit(Ad, p), mxlit(l0), mxlit(numpy.linalg.inv(l0)), serlit(Ld, p)))
                    metas.append(dict(model='cholU', n=n, D=D, direction=p))
        except Exception as e:
            viol('cholesky:exception:%s' % type(e).__name__, 'cholesky (n=%d) raises %r' % (n, e), meta, exc=repr(e))
        # ================================================================= LU
        n = rng.randint(1, 4)
        Ad = hi(rng, D, P, n, n)
        from c07 import base_matrix
        for p in range(P):
            Ad[0, p] = base_matrix(rng, n)
        meta = dict(op='lu', n=n, D=D, P=P, A=Ad.tolist())
        case('lu', meta, D >= 2 and n >= 2)
        try:
            W, L, U_ = algopy.lu(mkU(Ad))
            Wd, Ld, Ud = numpy.asarray(W.data), numpy.asarray(L.data), numpy.asarray(U_.data)
            Ao, Lo, Uo = obj_mats(Ad), obj_mats(Ld), obj_mats(Ud)
            ok = True
            sc = scale_of(Ad) ** 2
            for p in range(P):
                w0, l0, u0 = scipy.linalg.lu(Ad[0, p])
                if not (numpy.array_equal(Wd[0, p], w0) and numpy.array_equal(Ld[0, p], l0) and numpy.array_equal(Ud[0, p], u0)):
                    viol('lu:base', 'lu: zeroth coefficients are not the factors scipy.linalg.lu returns', meta); ok = False; break
                if D > 1 and numpy.max(numpy.abs(Wd[1:, p])) != 0:
                    viol('lu:perm', 'lu: the permutation factor is not constant', meta); ok = False; break
                res = ps_residual([numpy.dot(const_obj(w0, D), numpy.dot(Lo[p], Uo[p])) - Ao[p]])
                if float(res) > tol * sc:
                    viol('lu', 'lu (n=%d, D=%d): residual P L U - A = %.2g' % (n, D, float(res)), meta); ok = False; break
            r_l = struct_residual(Ld, numpy.triu(numpy.ones((n, n), dtype=bool), 1))
            r_u = struct_residual(Ud, numpy.tril(numpy.ones((n, n), dtype=bool), -1))
            diag_ok = all(numpy.allclose(numpy.diagonal(Ld[d, p]), 1.0 if d == 0 else 0.0, atol=tol * sc) for d in range(D) for p in range(P))
            if ok and (r_l > tol * sc or r_u > tol * sc or not diag_ok):
                viol('lu:structure', 'lu: L is not unit lower / U is not upper triangular at every order (%.2g, %.2g)' % (r_l, r_u), meta); ok = False
            if ok:
                for p in range(P):
                    w0, l0, u0 = scipy.linalg.lu(Ad[0, p])
                    LU = '(luU %d %s %s %s %s %s %s)' % (n, mxlit(w0.T), serlit(Ad, p), mxlit(l0), mxlit(u0), mxlit(numpy.linalg.inv(l0)), mxlit(numpy.linalg.inv(u0)))
                    terms.append('(mxs_close %s %d %d [seq lu.1 | lu <- %s] %s && mxs_close %s %d %d [seq lu.2 | lu <- %s] %s)'
                                 % (qlit(F(tol * sc)), n, n, LU, serlit(Ld, p), qlit(F(tol * sc)), n, n, LU, serlit(Ud, p)))
                    metas.append(dict(model='luU', n=n, D=D, direction=p))
            if ok:
                # the other two entry points of the same factorisation (separate copies of the recurrence): lu2 -> (piv, L, U), lu_factor -> (packed LU, piv)
                for entry in ('lu2', 'lu_factor'):
                    case(entry, dict(meta, op=entry), D >= 2 and n >= 2)
                    if entry == 'lu2':
                        PIV, L2, U2 = algopy.UTPM.lu2(mkU(Ad)); L2d, U2d = numpy.asarray(L2.data), numpy.asarray(U2.data)
                    else:
                        LUp, PIV = algopy.UTPM.lu_factor(mkU(Ad)); LUd = numpy.asarray(LUp.data)
                        L2d = numpy.array([[numpy.tril(LUd[d, p], -1) + (numpy.eye(n) if d == 0 else 0) for p in range(P)] for d in range(D)])
                        U2d = numpy.array([[numpy.triu(LUd[d, p], 0) for p in range(P)] for d in range(D)])
                    for p in range(P):
                        piv0 = scipy.linalg.lu_factor(Ad[0, p])[1]
                        if not numpy.array_equal(numpy.asarray(PIV.data)[0, p], piv0):
                            viol(entry + ':piv', '%s: pivot vector is not the one scipy.linalg.lu_factor(A_0) returns' % entry, dict(meta, op=entry)); break
                    else:
                        dl, du = float(numpy.max(numpy.abs(L2d - Ld))), float(numpy.max(numpy.abs(U2d - Ud)))
                        if not (dl <= tol * sc and du <= tol * sc):
                            viol(entry, '%s (n=%d, D=%d): factors differ from the (model-checked) factors of lu by %.2g (L), %.2g (U)' % (entry, n, D, dl, du), dict(meta, op=entry))
        except Exception as e:
            viol('lu:exception:%s' % type(e).__name__, 'lu (n=%d) raises %r' % (n, e), meta, exc=repr(e))
        # ================================================================= eigh: EXACTLY diagonal data (unsorted diagonals, equal entries that are not adjacent)
        if not getattr(rep, '_diag_sweep_done', False):
            rep._diag_sweep_done = True
            for dname, A0, A1 in [('diag(3,1,2)', numpy.diag([3.0, 1.0, 2.0]), None), ('diag(2,1,2)', numpy.diag([2.0, 1.0, 2.0]), None),
                                  ('2 I + t diag(5,1,5)', 2.0 * numpy.eye(3), numpy.diag([5.0, 1.0, 5.0])), ('diag(-1,4)', numpy.diag([4.0, -1.0]), None),
                                  ('diag(1,1,3,1)', numpy.diag([1.0, 1.0, 3.0, 1.0]), None)]:
                n_ = A0.shape[0]
                for De in (3, 4):
                    Ae = numpy.zeros((De, 2, n_, n_))
                    for idx in numpy.ndindex(*Ae.shape):
                        Ae[idx] = dy(rng)
                    Ae = 0.5 * (Ae + Ae.transpose((0, 1, 3, 2)))
                    Ae[0, :] = A0
                    if A1 is not None:
                        Ae[1, :] = A1
                    meta = dict(op='eigh', spectrum='exactly diagonal base: ' + dname, n=n_, D=De, P=2, A=Ae.tolist())
                    case('eigh:diagonal-base', meta, True)
                    rep.count('eigh: exactly diagonal base', dname)
                    check_eigh(algopy, rep, viol, Ae, meta, 'repeated' if dname != 'diag(3,1,2)' and dname != 'diag(-1,4)' else 'distinct', None)
        # ================================================================= eigh: every (degree, splitting order) pair once per run
        if not getattr(rep, '_split_sweep_done', False):
            rep._split_sweep_done = True
            for De in range(3, 8 if tier == 'quick' else 9):
                for s_ in range(1, De):
                    n_ = 2 + (De + s_) % 2; Pe = 1 + (s_ % 2)
                    Ae = numpy.zeros((De, Pe, n_, n_))
                    for p in range(Pe):
                        Ae[:, p] = split_at_fn(rng, n_, De, s_)
                    meta = dict(op='eigh', spectrum='split-sweep', split_at=s_, n=n_, D=De, P=Pe, A=Ae.tolist())
                    case('eigh:split-sweep', meta, True)
                    rep.count('eigh:split (D, s)', '%d,%d' % (De, s_))
                    check_eigh(algopy, rep, viol, Ae, meta, 'split-late', s_)
        # ================================================================= eigh: clusters that split IN STAGES next to simple eigenvalues
        if not getattr(rep, '_staged_done', False):
            rep._staged_done = True
            import r12
            for pname, De, Ae in r12.staged_spectra(lib.rng_for(seed, PID + ':staged'), tier):   # own stream: the sections below keep their draws
                meta = dict(op='eigh', spectrum='staged:' + pname, n=Ae.shape[2], D=De, P=Ae.shape[1], A=Ae.tolist())
                case('eigh:staged', meta, True)
                rep.count('eigh: staged splitting', pname)
                check_eigh(algopy, rep, viol, Ae, meta, 'staged', None)
        # ================================================================= eigh: distinct / exactly repeated eigenvalues
        for spec in ('distinct', 'repeated', 'split-late'):
            n = rng.randint(2, 4)
            Ad = hi(rng, D, P, n, n)
            Ad = 0.5 * (Ad + Ad.transpose((0, 1, 3, 2)))
            split_at = None
            if spec == 'split-late':
                # repeated base eigenvalues that stay repeated up to order s-1 and split at order s, for degrees up to 7
                De = rng.randint(3, 7); s_ = rng.randint(1, De - 1); n = rng.randint(2, 3); Pe = rng.randint(1, 2)
                Ad = numpy.zeros((De, Pe, n, n))
                for p in range(Pe):
                    Ad[:, p] = split_at_fn(rng, n, De, s_)
                meta = dict(op='eigh', spectrum=spec, split_at=s_, n=n, D=De, P=Pe, A=Ad.tolist())
                case('eigh:' + spec, meta, True)
                check_eigh(algopy, rep, viol, Ad, meta, spec, s_)
                continue
            for p in range(P):
                Q0 = rand_orth(rng, n)
                if spec == 'distinct':
                    lam = sorted(rng.sample([-4, -2.5, -1, 0.5, 2, 3.5, 5], n))
                else:
                    base = sorted(rng.sample([-3, -1, 1, 3, 5], max(1, n - 1)))
                    lam = sorted(base + [base[0]] * (n - len(base)))
                Ad[0, p] = Q0 @ numpy.diag(lam) @ Q0.T
                Ad[0, p] = 0.5 * (Ad[0, p] + Ad[0, p].T)
            if spec == 'repeated' and D >= 3 and rng.random() < 0.5:
                # the repeated eigenvalue stays repeated at order 1 (A_1 = scalar on everything) and splits at order 2
                Ad[1] = 0.0
                for p in range(P):
                    Ad[1, p] = rng.choice([-1.0, 0.5, 2.0]) * numpy.eye(n)
                split_at = 2
            meta = dict(op='eigh', spectrum=spec, split_at=split_at, n=n, D=D, P=P, A=Ad.tolist())
            case('eigh:' + spec, meta, D >= 2)
            try:
                l, Q = algopy.eigh(mkU(Ad))
                ld, Qd = numpy.asarray(l.data), numpy.asarray(Q.data)
                Ao, Qo = obj_mats(Ad), obj_mats(Qd)
                lo = obj_mats(ld)
                etol = 1e-9 * 4 ** D * scale_of(Ad) ** 2
                bad = None
                for p in range(P):
                    Lam = numpy.empty((n, n), dtype=object)
                    for i in range(n):
                        for j in range(n):
                            Lam[i, j] = lo[p][i] if i == j else PS.const(0, D)
                    r1 = ps_residual([numpy.dot(Ao[p], Qo[p]) - numpy.dot(Qo[p], Lam)])
                    r2 = ps_residual([numpy.dot(Qo[p].T, Qo[p]) - const_obj(numpy.eye(n), D)])
                    if float(r1) > etol or float(r2) > etol:
                        bad = 'residuals AQ-Q diag(l) %.2g, Q^TQ-I %.2g' % (float(r1), float(r2)); break
                    if numpy.any(numpy.diff(ld[0, p]) < -1e-9):
                        bad = 'lambda_0 is not ascending'; break
                    if not numpy.allclose(ld[0, p], numpy.linalg.eigh(Ad[0, p])[0], atol=1e-9):
                        bad = 'lambda_0 differs from numpy.linalg.eigh'; break
                if bad:
                    viol('eigh:%s%s' % (spec, ':split2' if split_at else ''), 'eigh (%s eigenvalues, n=%d, D=%d): %s' % (spec, n, D, bad), meta)
                elif spec == 'distinct' and n <= 3:
                    # the proved kernel (Eigh.v: eighU, C08_eighM_spec / C08_eighU_refines) from the same base-point data the implementation uses
                    for p in range(P):
                        l0 = ld[0, p]; Q0 = Qd[0, p]
                        H = numpy.array([[0.0 if r == c else 1.0 / (l0[c] - l0[r]) for c in range(n)] for r in range(n)])
                        EU = '(eighU %d %s %s %s %s)' % (n, serlit(Ad, p), mxlit(Q0), mxlit(numpy.diag(l0)), mxlit(H))
                        Ldiag = numpy.array([[numpy.diag(ld[d_, p]) for p_ in [p]] for d_ in range(D)])
                        sc_e = F(scale_of(Ad) ** 2 * (1 + float(numpy.max(numpy.abs(H)))) ** D)
                        terms.append('(mxs_close %s %d %d [seq ql.1 | ql <- %s] %s && mxs_close %s %d %d [seq ql.2 | ql <- %s] %s)'
                                     % (qlit(F(tol) * sc_e), n, n, EU, serlit(Qd, p), qlit(F(tol) * sc_e), n, n, EU, serlit(Ldiag, 0)))
                        metas.append(dict(model='eighU', n=n, D=D, direction=p))
            except Exception as e:
                viol('eigh:%s:exception:%s' % (spec, type(e).__name__), 'eigh (%s, n=%d, D=%d) raises %r' % (spec, n, D, e), meta, exc=repr(e))
        # ================================================================= eig (D <= 2)
        n = rng.randint(2, 3); D2 = min(D, 2)
        Ad = hi(rng, D2, P, n, n)
        for p in range(P):
            X = numpy.eye(n) + numpy.triu(numpy.array([[rng.randint(-2, 2) / 4 for _ in range(n)] for _ in range(n)]), 1)
            lam = sorted(rng.sample([-3, -1, 1, 2.5, 4], n))
            Ad[0, p] = X @ numpy.diag(lam) @ numpy.linalg.inv(X)
        meta = dict(op='eig', n=n, D=D2, P=P, A=Ad.tolist())
        case('eig', meta, D2 >= 2)
        try:
            l, Q = algopy.eig(mkU(Ad))
            ld, Qd = numpy.asarray(l.data), numpy.asarray(Q.data)
            bad = None
            for p in range(P):
                A0, Q0_, l0 = Ad[0, p], Qd[0, p], ld[0, p]
                if not numpy.allclose(A0 @ Q0_, Q0_ @ numpy.diag(l0), atol=1e-9):
                    bad = 'A_0 Q_0 != Q_0 diag(l_0)'; break
                if D2 == 2:
                    lhs = Ad[1, p] @ Q0_ + A0 @ Qd[1, p]
                    rhs = Qd[1, p] @ numpy.diag(l0) + Q0_ @ numpy.diag(ld[1, p])
                    if not numpy.allclose(lhs, rhs, atol=1e-8 * scale_of(Ad) ** 2):
                        bad = 'first-order equation A_1 Q_0 + A_0 Q_1 = Q_1 L_0 + Q_0 L_1 violated (%.2g)' % float(numpy.max(numpy.abs(lhs - rhs))); break
            if bad:
                viol('eig', 'eig (n=%d, D=%d): %s' % (n, D2, bad), meta)
        except Exception as e:
            viol('eig:exception:%s' % type(e).__name__, 'eig (n=%d, D=%d) raises %r' % (n, D2, e), meta, exc=repr(e))
        # ================================================================= svd
        n = rng.randint(1, 3)
        shape_kind = rng.choice(['square', 'tall', 'wide'])
        M_, N_ = (n, n) if shape_kind == 'square' else ((n + 1, n) if shape_kind == 'tall' else (n, n + 1))
        Ds = min(D, 3)
        Ad = hi(rng, Ds, P, M_, N_)
        for p in range(P):
            U0 = rand_orth(rng, M_); V0 = rand_orth(rng, N_)
            s0 = sorted(rng.sample([1, 2, 3.5, 5, 6.5], min(M_, N_)), reverse=True)
            S0 = numpy.zeros((M_, N_)); S0[:len(s0), :len(s0)] = numpy.diag(s0)
            Ad[0, p] = U0 @ S0 @ V0.T
        meta = dict(op='svd', shape=shape_kind, M=M_, N=N_, D=Ds, P=P, A=Ad.tolist())
        case('svd:' + shape_kind, meta, Ds >= 2 and n >= 2)
        try:
            U_, s, V = algopy.svd(mkU(Ad))
            Ud, sd, Vd = numpy.asarray(U_.data), numpy.asarray(s.data), numpy.asarray(V.data)
            Ao, Uo, Vo, so = obj_mats(Ad), obj_mats(Ud), obj_mats(Vd), obj_mats(sd)
            K_ = min(M_, N_)
            stol = 1e-8 * 4 ** Ds * scale_of(Ad) ** 2
            bad = None
            for p in range(P):
                Sg = numpy.empty((M_, N_), dtype=object)
                for i in range(M_):
                    for j in range(N_):
                        Sg[i, j] = so[p][i] if (i == j and i < K_) else PS.const(0, Ds)
                r1 = ps_residual([numpy.dot(Uo[p], numpy.dot(Sg, Vo[p].T)) - Ao[p]])
                r2 = ps_residual([numpy.dot(Uo[p].T, Uo[p]) - const_obj(numpy.eye(M_), Ds)])
                r3 = ps_residual([numpy.dot(Vo[p].T, Vo[p]) - const_obj(numpy.eye(N_), Ds)])
                if max(float(r1), float(r2), float(r3)) > stol:
                    bad = 'residuals U S V^T - A %.2g, U^TU-I %.2g, V^TV-I %.2g' % (float(r1), float(r2), float(r3)); break
                if numpy.any(sd[0, p] < -1e-12) or numpy.any(numpy.diff(sd[0, p]) > 1e-9):
                    bad = 's_0 is not descending / non-negative: %r' % (sd[0, p].tolist(),); break
            if bad:
                viol('svd:' + shape_kind, 'svd (%s %dx%d, D=%d): %s' % (shape_kind, M_, N_, Ds, bad), meta)
        except Exception as e:
            viol('svd:%s:exception:%s' % (shape_kind, type(e).__name__), 'svd (%s %dx%d, D=%d) raises %r' % (shape_kind, M_, N_, Ds, e), meta, exc=repr(e))

    verdicts, logs = lib.eval_bool_cases(PID, IMPORTS, DEFS, terms, per_file=6)
    bad = 0
    for m, v, t in zip(metas, verdicts, terms):
        rep.count('coq:model', m['model'])
        rep.case(('coq', json.dumps(m, sort_keys=True), t[:300]), m['D'] >= 2 and m['n'] >= 2, sample=m)
        if v is None:
            bad += 1
        elif not v:
            rep.violation('model:' + m['model'], '%s: implementation coefficients differ from the model Matrix.v' % m['model'], dict(kind='model', case=m, coq_term=t[:6000]))
    if bad or logs:
        rep.violation('corr:uneval', 'correspondence corr.C08 could not be evaluated for %d cases' % bad, dict(kind='correspondence', name='corr.C08', log=logs[:3]), no_input=True)
    import r9
    r9.c08_overflowing_direction(rep, algopy, rng, tier, viol)
    return rep.finish()


def replay(path):
    pl = json.load(open(path))
    return main(pl.get('tier', 'quick'), pl.get('seed', 0))
