"""C14 -- operands are never modified; aliased and in-place forms are safe.
Theorems: Props/C14.v (store-passing models of _mul with out= aliasing and of __imul__, InPlace.v).
Checks on the implementation:
  (a) byte-wise snapshot of every argument buffer before/after every registered operation (ops.py),
  (b) x op x  vs  x op copy(x), x op= x / x op= view(x) vs the same with an independent copy (exact, dyadic inputs),
  (c) the kernels _mul(out= aliased) and __imul__ against the Coq store model (vm_compute over Qc, exact),
  (d) recording and reverse sweeps do not modify the user's input and seed objects."""
import json
from fractions import Fraction
import numpy
import lib, ops
from lib import Report, qlit, qseq

PID = 'C14'
IMPORTS = 'QcField Sums Series InPlace'
DEFS = """
Definition alias_of (n : nat) : alias := match n with 0%N => NoAlias | 1%N => AliasX | 2%N => AliasY | _ => AliasXY end.
"""
F = Fraction


def snap(a):
    return (a.tobytes(), str(a.dtype), a.shape, a.strides)


def dyadic_utpm(rng, D, P, shp, nz=False):
    data = numpy.zeros((D, P) + tuple(shp))
    for idx in numpy.ndindex(*data.shape):
        while True:
            v = F(rng.randint(-16, 16), 8)
            if not (nz and idx[0] == 0 and v == 0):
                break
        data[idx] = float(v)
    if nz:
        data[0] = numpy.where(numpy.abs(data[0]) < 0.25, 2.0, data[0])
        data[0] = numpy.sign(data[0]) * 2.0 ** numpy.round(numpy.log2(numpy.abs(data[0])))
    return data


def check_mutation(rep, algopy, rng, tier):
    per_op = 6 if tier == "quick" else 30
    for nm, op in sorted(ops.ops_for(PID).items()):
        for _ in range(per_op):
            case = op.gen(rng, Dmax=5, Pmax=2)
            layout = ['C', 'F', 'T'][rep.evaluations % 3]              # C-contiguous, Fortran-ordered, transposed trailing axes
            inputs = [lib.relayout(numpy.array(x, dtype=float), layout) for x in case['inputs']]
            before = [snap(a) for a in inputs]
            rep.count('mutation:op', nm); rep.count('mutation:layout', layout)
            rep.case(('mut', nm, json.dumps(case, sort_keys=True, default=str)), True,
                     sample=dict(check='mutation', op=nm, shapes=[list(a.shape) for a in inputs]))
            try:
                op.run(algopy, case, inputs)
            except Exception as e:
                rep.notes.append('%s raised %r (decided by the owning property)' % (nm, e))
                continue
            for i, (b, a) in enumerate(zip(before, inputs)):
                if snap(a) != b:
                    rep.violation('mutation:' + nm, '%s modified the coefficient data of its argument %d' % (nm, i),
                                  dict(kind='mutation', case=case, argument=i))


BIN = {'add': lambda a, b: a + b, 'sub': lambda a, b: a - b, 'mul': lambda a, b: a * b, 'div': lambda a, b: a / b}


def iop(op, a, b):
    if op == 'add':
        a += b
    elif op == 'sub':
        a -= b
    elif op == 'mul':
        a *= b
    else:
        a /= b
    return a


def check_alias(rep, algopy, rng, tier):
    UTPM = algopy.UTPM
    n = 150 if tier == 'quick' else 2500
    for _ in range(n):
        op = rng.choice(['add', 'sub', 'mul', 'div'])
        form = rng.choice(['x op x', 'x op= x', 'x op= view(x)', 'f(x,x)', 'x op= x.data[d,p]'])
        D = rng.randint(1, 5); P = rng.randint(1, 2)
        shp = rng.choice([(), (3,), (2, 2)])
        if form == 'x op= view(x)' and shp == ():
            shp = (3,)
        data = dyadic_utpm(rng, D, P, shp, nz=True)
        rep.count('alias:form', form); rep.count('alias:op', op)
        rep.case(('alias', form, op, data.tobytes().hex()), D >= 2, sample=dict(check='alias', form=form, op=op, D=D, P=P, shape=list(shp)))
        try:
            x = UTPM(data.copy())
            if form == 'x op x':
                got = BIN[op](x, x).data
                want = BIN[op](UTPM(data.copy()), UTPM(data.copy())).data
                if not numpy.array_equal(x.data, data):
                    rep.violation('alias:%s:%s:mutates' % (form, op), 'x %s x modified x' % op, dict(kind='alias', form=form, op=op, data=data.tolist()))
            elif form == 'x op= x':
                got = iop(op, x, x).data
                want = iop(op, UTPM(data.copy()), UTPM(data.copy())).data
            elif form == 'x op= view(x)':
                v = x[::-1] if len(shp) == 1 else x.T
                got = iop(op, x, v).data
                y = UTPM(data.copy())
                w = UTPM(data.copy())
                want = iop(op, y, w[::-1] if len(shp) == 1 else w.T).data
            elif form == 'x op= x.data[d,p]':
                # the right operand is a PLAIN-ARRAY view of one coefficient block of the left operand (a constant from the point of view
                # of the arithmetic, but sharing memory with x): every direction, also one that is not the last
                d_, p_ = rng.randrange(D), rng.randrange(P)
                rep.count('alias:coefficient view', 'd=%d%s' % (min(d_, 1), ', not the last direction' if p_ < P - 1 else ''))
                got = iop(op, x, x.data[d_, p_]).data
                want = iop(op, UTPM(data.copy()), data[d_, p_].copy()).data
            else:
                f = rng.choice(['minimum', 'maximum'])
                got = getattr(algopy, f)(x, x).data
                want = getattr(algopy, f)(UTPM(data.copy()), UTPM(data.copy())).data
        except Exception as e:
            rep.violation('alias:%s:%s:exception' % (form, op), '%s (%s) raises %r' % (form, op, e),
                          dict(kind='alias', form=form, op=op, data=data.tolist(), exc=repr(e)))
            continue
        if not numpy.array_equal(numpy.asarray(got), numpy.asarray(want), equal_nan=True):      # a divisor block may contain 0: inf/nan, identically in both
            rep.violation('alias:%s:%s' % (form, op), '%s with op %s differs from the same expression on an independent copy' % (form, op),
                          dict(kind='alias', form=form, op=op, data=data.tolist(), got=numpy.asarray(got).tolist(), want=numpy.asarray(want).tolist()))


def check_own_coefficient_operands(rep, algopy, rng, tier):
    """x op= a for EVERY in-place operator and every coefficient block a = x.data[d, p] of x itself (a plain-array view sharing memory with x),
    several directions: the same as with an independent copy of the block (scheduled, not drawn: every (operator, d, p))"""
    UTPM = algopy.UTPM
    for op in ('add', 'sub', 'mul', 'div'):
        for D, P in ((1, 2), (3, 2), (2, 3)):
            for shp in ((3,), (2, 2)):
                for d_ in range(D):
                    for p_ in range(P):
                        data = dyadic_utpm(rng, D, P, shp, nz=True)
                        rep.count('own coefficient block as operand', op)
                        rep.case(('own-block', op, D, P, shp, d_, p_, data.tobytes().hex()[:32]), True, sample=dict(check='x op= x.data[d,p]', op=op, D=D, P=P, d=d_, p=p_))
                        try:
                            x = UTPM(data.copy())
                            got = iop(op, x, x.data[d_, p_]).data
                            want = iop(op, UTPM(data.copy()), data[d_, p_].copy()).data
                        except Exception as e:
                            rep.violation('alias:own-block:%s:exception' % op, 'x %s= x.data[%d,%d] raises %r' % (op, d_, p_, e), dict(kind='alias', form='x op= x.data[d,p]', op=op, data=data.tolist())); continue
                        if not numpy.array_equal(numpy.asarray(got), numpy.asarray(want), equal_nan=True):
                            rep.violation('alias:x op= x.data[d,p]:%s' % op, 'x %s= x.data[%d,%d] (D=%d, P=%d) differs from the same operation with an independent copy of the block' % (op, d_, p_, D, P),
                                          dict(kind='alias', form='x op= x.data[d,p]', op=op, data=data.tolist(), d=d_, p=p_))
                            break


def check_store_model(rep, algopy, rng, tier):
    """kernels against the Coq store model, exact"""
    UTPM = algopy.UTPM
    n = 120 if tier == 'quick' else 1500
    terms, metas = [], []
    for _ in range(n):
        D = rng.randint(1, 6)
        x = dyadic_utpm(rng, D, 1, ())
        y = dyadic_utpm(rng, D, 1, ())
        kind = rng.choice(['_mul out=x', '_mul out=y', '_mul out=x=y', '_mul out=fresh', 'imul', 'imul alias'])
        xs = [lib.frac(v) for v in x[:, 0]]; ys = [lib.frac(v) for v in y[:, 0]]
        try:
            if kind.startswith('_mul'):
                xd, yd = x.copy(), y.copy()
                if kind == '_mul out=x':
                    UTPM._mul(xd, yd, out=xd); res = xd; al = 1; t = '(mul_into (alias_of 1%%N) %s %s %s)' % (qseq(xs), qseq(ys), qseq(xs))
                elif kind == '_mul out=y':
                    UTPM._mul(xd, yd, out=yd); res = yd; t = '(mul_into (alias_of 2%%N) %s %s %s)' % (qseq(xs), qseq(ys), qseq(ys))
                elif kind == '_mul out=x=y':
                    UTPM._mul(xd, xd, out=xd); res = xd; t = '(mul_into (alias_of 3%%N) %s %s %s)' % (qseq(xs), qseq(xs), qseq(xs))
                else:
                    o = numpy.zeros_like(xd); UTPM._mul(xd, yd, out=o); res = o
                    t = '(mul_into (alias_of 0%%N) %s %s %s)' % (qseq(xs), qseq(ys), qseq([F(0)] * D))
            elif kind == 'imul':
                a = UTPM(x.copy()); a *= UTPM(y.copy()); res = a.data
                t = '(imul_fixed false %s %s)' % (qseq(xs), qseq(ys))
            else:
                a = UTPM(x.copy()); a *= a; res = a.data
                t = '(imul_fixed true %s %s)' % (qseq(xs), qseq(xs))
        except Exception as e:
            rep.violation('store:%s:exception' % kind, '%s raises %r' % (kind, e), dict(kind='store', what=kind, x=x.tolist(), y=y.tolist()))
            continue
        rs = [lib.frac(v) for v in numpy.asarray(res)[:, 0]]
        terms.append('(((%s) : seq K) == %s)' % (t, qseq(rs)))
        metas.append(dict(check='store-model', what=kind, x=[float(v) for v in x[:, 0]], y=[float(v) for v in y[:, 0]], impl=[float(v) for v in rs]))
    verdicts, logs = lib.eval_bool_cases(PID, IMPORTS, DEFS, terms, per_file=200)
    bad = 0
    for m, v, t in zip(metas, verdicts, terms):
        rep.count('store:kind', m['what'])
        rep.case(('store', json.dumps(m, sort_keys=True)), len(m['x']) >= 2, sample=m)
        if v is None:
            bad += 1
        elif not v:
            rep.violation('store:' + m['what'], '%s: implementation differs from the proved store model' % m['what'],
                          dict(kind='store', case=m, coq_term=t))
    if bad or logs:
        rep.violation('corr:uneval', 'correspondence corr.C14.store could not be evaluated for %d cases' % bad,
                      dict(kind='correspondence', name='corr.C14.store', log=logs[:3]), no_input=True)


def check_tracer(rep, algopy, rng, tier):
    """recording and reverse sweeps leave the user's input and seed objects untouched"""
    UTPM, CGraph, Function = algopy.UTPM, algopy.CGraph, algopy.Function
    progs = [
        ('x0*x1+sin(x0)', lambda x: x[0] * x[1] + algopy.sin(x[0])),
        ('sum(x*x)/x1', lambda x: algopy.sum(x * x) / x[1]),
        ('exp(x0)-x1**3', lambda x: algopy.exp(x[0]) - x[1] ** 3),
        ('dot(x,x)+tan(x0)', lambda x: algopy.dot(x, x) + algopy.tan(x[0])),
        ('buffer', lambda x: _buffer_prog(algopy, x)),
    ]
    n = 6 if tier == 'quick' else 60
    for name, f in progs:
        for _ in range(n):
            D = rng.randint(1, 4); P = rng.randint(1, 2)
            xdata = dyadic_utpm(rng, D, P, (2,), nz=True)
            xdata[0] = numpy.abs(xdata[0]) * 0.25 + 0.25
            ux = UTPM(xdata.copy())
            rep.count('tracer:program', name)
            rep.case(('tracer', name, xdata.tobytes().hex()), True, sample=dict(check='tracer', program=name, D=D, P=P))
            try:
                cg = CGraph()
                fx = Function(ux)
                fy = f(fx)
                cg.trace_off()
                cg.independentFunctionList = [fx]
                cg.dependentFunctionList = [fy]
                if not numpy.array_equal(ux.data, xdata):
                    rep.violation('tracer:recording:' + name, 'recording %s modified the input object' % name, dict(kind='tracer', program=name, x=xdata.tolist()))
                    continue
                ybar = UTPM(dyadic_utpm(rng, D, P, ()))
                yb0 = ybar.data.copy()
                x2 = UTPM(xdata.copy())
                cg.pushforward([x2])
                cg.pullback([ybar])
                cg.pullback([ybar])
                if not numpy.array_equal(ybar.data, yb0):
                    rep.violation('tracer:seed:' + name, 'the reverse sweep of %s modified the user seed ybar' % name,
                                  dict(kind='tracer', program=name, x=xdata.tolist(), ybar=yb0.tolist()))
                if not numpy.array_equal(x2.data, xdata) or not numpy.array_equal(ux.data, xdata):
                    rep.violation('tracer:input:' + name, 'pushforward/pullback of %s modified the user input' % name,
                                  dict(kind='tracer', program=name, x=xdata.tolist()))
            except Exception as e:
                rep.notes.append('tracer program %s raised %r (decided by C03/C05)' % (name, e))


def deep_snapshot(o):
    """identity and bytes of an argument object, containers included: (id, kind, content)"""
    if isinstance(o, (list, tuple)):
        return (id(o), type(o).__name__, tuple(deep_snapshot(e) for e in o))
    if hasattr(o, 'data') and hasattr(o.data, 'tobytes') and not isinstance(o, numpy.ndarray):
        return (id(o), type(o).__name__, (o.data.shape, str(o.data.dtype), o.data.tobytes()))
    if isinstance(o, numpy.ndarray):
        return (id(o), 'ndarray', (o.shape, str(o.dtype), o.tobytes()))
    return (id(o), type(o).__name__, repr(o))


def check_driver_arguments(rep, algopy, rng, tier):
    """every graph driver leaves the objects it is handed exactly as they were - arrays, lists of arrays (the multi-argument form of
    gradient, pushforward, pullback, function) and their entries: same objects, same bytes - and can be called again with them"""
    UTPM, CGraph, Function = algopy.UTPM, algopy.CGraph, algopy.Function
    for it in range(8 if tier == 'quick' else 80):
        a0 = numpy.array([rng.randint(1, 8) / 4 for _ in range(3)]); b0 = numpy.array([rng.randint(1, 8) / 4 for _ in range(2)])
        cg = CGraph(); fa = Function(a0.copy()); fb = Function(b0.copy())
        fy = algopy.sum(fa * fa * fa) * algopy.sum(fb * fb) + algopy.sin(fa[0]) * fb[1]
        cg.trace_off(); cg.independentFunctionList = [fa, fb]; cg.dependentFunctionList = [fy]
        cg1 = CGraph(); fx = Function(a0.copy()); fz = algopy.sum(fx * fx) * fx[0] + algopy.exp(fx[1])
        cg1.trace_off(); cg1.independentFunctionList = [fx]; cg1.dependentFunctionList = [fz]
        a = numpy.array([rng.randint(1, 8) / 4 for _ in range(3)]); b = numpy.array([rng.randint(1, 8) / 4 for _ in range(2)])
        v = numpy.array([rng.randint(-4, 4) / 4 for _ in range(3)])
        D, P = rng.randint(1, 3), rng.randint(1, 2)
        ua = UTPM(dyadic_utpm(rng, D, P, (3,), nz=True)); ub = UTPM(dyadic_utpm(rng, D, P, (2,), nz=True)); ybar = UTPM(dyadic_utpm(rng, D, P, ()))
        calls = [
            ('gradient([a, b]) (list of arrays)', lambda args: cg.gradient(args), [a, b]),
            ('gradient([list, list])', lambda args: cg.gradient(args), [a.tolist(), b.tolist()]),
            ('function([a, b])', lambda args: cg.function(args), [a, b]),
            ('pushforward([ua, ub])', lambda args: cg.pushforward(args), [ua, ub]),
            ('pullback([ybar])', lambda args: cg.pullback(args), [ybar]),
            ('gradient(a)', lambda args: cg1.gradient(args), a),
            ('hessian(a)', lambda args: cg1.hessian(args), a),
            ('hess_vec(a, v)', lambda args: cg1.hess_vec(args[0], args[1]), (a, v)),
            ('jacobian(a)', lambda args: cg1.jacobian(args), a),
            ('gradient(list)', lambda args: cg1.gradient(args), a.tolist()),
        ]
        for cname, call, args in calls:
            rep.count('driver argument form', cname)
            rep.case(('driver-args', cname, it), True, sample=dict(check='driver arguments untouched', call=cname))
            before = deep_snapshot(args)
            try:
                r1 = call(args)
                r1 = None if r1 is None else [numpy.array(getattr(r_, 'data', r_), copy=True) for r_ in (r1 if isinstance(r1, (list, tuple)) else [r1])]
            except Exception as e:
                rep.notes.append('driver call %s raised %r' % (cname, e)); continue
            if deep_snapshot(args) != before:
                rep.violation('driver-args:%s' % cname.split('(')[0], 'the call cg.%s changed the argument object it was given (container entries replaced or data modified)' % cname,
                              dict(kind='driver-args', call=cname))
                continue
            try:
                r2 = call(args)
                r2 = None if r2 is None else [numpy.array(getattr(r_, 'data', r_), copy=True) for r_ in (r2 if isinstance(r2, (list, tuple)) else [r2])]
                if r1 is not None and (len(r1) != len(r2) or not all(numpy.array_equal(x_, y_) for x_, y_ in zip(r1, r2))):
                    rep.violation('driver-args:%s:second-call' % cname.split('(')[0], 'calling cg.%s again with the same argument objects gives a different result' % cname, dict(kind='driver-args', call=cname))
            except Exception as e:
                rep.violation('driver-args:%s:second-call' % cname.split('(')[0], 'calling cg.%s again with the same argument objects raises %r' % (cname, e), dict(kind='driver-args', call=cname, exc=repr(e)))


def check_pullback_rules(rep, algopy, rng, tier):
    """the reverse-mode rules called directly (UTPM.pb_*) with user-owned objects: seed, arguments and forward value are byte-identical
    afterwards, and a second call with the same objects gives the same adjoints.  Non-dyadic values (temporaries like (x + c) - c do not
    round-trip there)."""
    import algopy.special as sp
    UTPM = algopy.UTPM
    n = 3 if tier == 'quick' else 30

    def rnd(D, P, shp, lo=0.3, hi=1.7):
        return numpy.array([lo + (hi - lo) * rng.random() for _ in range(D * P * int(numpy.prod(shp, dtype=int)))]).reshape((D, P) + tuple(shp))

    unary = [(nm, getattr(algopy, nm)) for nm in ('sqrt', 'exp', 'expm1', 'log', 'log1p', 'sin', 'cos', 'tan', 'reciprocal', 'negative', 'square', 'absolute')]
    unary += [(nm, getattr(sp, nm)) for nm in ('erf', 'erfi', 'dawsn', 'logit', 'expit', 'gammaln', 'psi')]
    cases = []
    for _ in range(n):
        D = rng.randint(2, 4); P = rng.randint(1, 2)
        shp = rng.choice([(), (3,), (2, 2)])
        for nm, f in unary:
            x = UTPM(rnd(D, P, shp, 0.2, 0.8))
            cases.append(('pb_' + nm, [x], lambda a, f=f: f(a), lambda zb, a, z, nm=nm: getattr(UTPM, 'pb_' + nm)(zb, a[0], z, out=(a[0].zeros_like(),))))
        for nm, op in [('add', lambda a, b: a + b), ('sub', lambda a, b: a - b), ('mul', lambda a, b: a * b), ('truediv', lambda a, b: a / b)]:
            for yshp in (shp, ()):
                x = UTPM(rnd(D, P, shp)); y = UTPM(rnd(D, P, yshp))
                cases.append(('pb_' + nm, [x, y], lambda a, b, op=op: op(a, b),
                              lambda zb, a, z, nm=nm: getattr(UTPM, 'pb_' + nm)(zb, a[0], a[1], z, out=(a[0].zeros_like(), a[1].zeros_like()))))
        for r in (2, 3, 0.5, -1.5):
            x = UTPM(rnd(D, P, shp))
            cases.append(('pb_pow', [x], lambda a, r=r: a ** r, lambda zb, a, z, r=r: UTPM.pb_pow(zb, a[0], r, z, out=(a[0].zeros_like(),))))
        A = UTPM(rnd(D, P, (3, 3)) + 3 * numpy.eye(3)[None, None] * (numpy.arange(D) == 0)[:, None, None, None]); B = UTPM(rnd(D, P, (3, 2))); v = UTPM(rnd(D, P, (3,)))
        cases.append(('pb_dot', [A, B], lambda a, b: algopy.dot(a, b), lambda zb, a, z: UTPM.pb_dot(zb, a[0], a[1], z, out=(a[0].zeros_like(), a[1].zeros_like()))))
        cases.append(('pb_dot(matrix,vector)', [A, v], lambda a, b: algopy.dot(a, b), lambda zb, a, z: UTPM.pb_dot(zb, a[0], a[1], z, out=(a[0].zeros_like(), a[1].zeros_like()))))
        cases.append(('pb_outer', [v, UTPM(rnd(D, P, (2,)))], lambda a, b: algopy.outer(a, b), lambda zb, a, z: UTPM.pb_outer(zb, a[0], a[1], z, out=(a[0].zeros_like(), a[1].zeros_like()))))
        cases.append(('pb_inv', [A], lambda a: algopy.inv(a), lambda zb, a, z: UTPM.pb_inv(zb, a[0], z, out=(a[0].zeros_like(),))))
        cases.append(('pb_solve', [A, B], lambda a, b: algopy.solve(a, b), lambda zb, a, z: UTPM.pb_solve(zb, a[0], a[1], z, out=(a[0].zeros_like(), a[1].zeros_like()))))
        cases.append(('pb_det', [A], lambda a: algopy.det(a), lambda zb, a, z: UTPM.pb_det(zb, a[0], z, out=(a[0].zeros_like(),))))
        cases.append(('pb_logdet', [A], lambda a: algopy.logdet(a), lambda zb, a, z: UTPM.pb_logdet(zb, a[0], z, out=(a[0].zeros_like(),))))
        cases.append(('pb_trace', [A], lambda a: algopy.trace(a), lambda zb, a, z: UTPM.pb_trace(zb, a[0], z, out=(a[0].zeros_like(),))))
        cases.append(('pb_transpose', [B], lambda a: a.T, lambda zb, a, z: UTPM.pb_transpose(zb, a[0], z, out=(a[0].zeros_like(),))))
        cases.append(('pb_sum', [B], lambda a: algopy.sum(a), lambda zb, a, z: UTPM.pb_sum(zb, a[0], z, None, None, None, out=(a[0].zeros_like(),))))
        cases.append(('pb_prod', [v], lambda a: algopy.prod(a), lambda zb, a, z: UTPM.pb_prod(zb, a[0], z, out=(a[0].zeros_like(),))))
    for name, args, fwd, pb in cases:
        rep.count('pullback rule', name)
        rep.case(('pbrule', name, args[0].data.tobytes().hex()[:48], rng.random()), True, sample=dict(check='pullback rule called directly', rule=name))
        try:
            z = fwd(*args)
            zbar = UTPM(rnd(z.data.shape[0], z.data.shape[1], z.data.shape[2:]))
            objs = list(args) + [z, zbar]
            before = [snap(o.data) for o in objs]
            out1 = pb(zbar, args, z)
            mid = [snap(o.data) for o in objs]
            out2 = pb(zbar, args, z)
        except Exception as e:
            rep.notes.append('pullback rule %s raised %r (decided by C03)' % (name, e))
            continue
        who = ['argument %d' % i for i in range(len(args))] + ['the forward value', 'the seed']
        changed = [w for w, b, m in zip(who, before, mid) if b != m]
        if changed:
            rep.violation('pbrule:mutates:' + name, 'UTPM.%s modifies %s of the caller' % (name, ', '.join(changed)), dict(kind='pbrule', rule=name))
            continue
        same = all(numpy.array_equal(numpy.asarray(a.data), numpy.asarray(b.data), equal_nan=True) for a, b in zip(_as_tuple(out1), _as_tuple(out2)))
        if not same:
            rep.violation('pbrule:second-call:' + name, 'UTPM.%s gives other adjoints when called a second time with the same objects' % name, dict(kind='pbrule', rule=name))


def check_extractors(rep, algopy, rng, tier):
    """the extract_* / init_* helpers of the forward drivers and the conversion helpers read their arguments only"""
    UTPM = algopy.UTPM
    for _ in range(10 if tier == 'quick' else 100):
        N = rng.randint(1, 4)
        x = numpy.array([0.3 + rng.random() for _ in range(N)]); v = numpy.array([rng.random() - 0.5 for _ in range(N)])
        f = lambda z: algopy.sum(algopy.sin(z) * z) * z[0]
        jobs = [('extract_jacobian', UTPM.init_jacobian(x), lambda y: UTPM.extract_jacobian(y)),
                ('extract_jac_vec', UTPM.init_jac_vec(x, v), lambda y: UTPM.extract_jac_vec(y)),
                ('extract_hessian', UTPM.init_hessian(x), lambda y: UTPM.extract_hessian(N, y)),
                ('extract_hess_vec', UTPM.init_hess_vec(x, v), lambda y: UTPM.extract_hess_vec(N, y)),
                ('extract_tensor', UTPM.init_tensor(2, x), lambda y: UTPM.extract_tensor(N, y, as_full_matrix=False))]
        x0, v0 = snap(x), snap(v)
        for name, seed, ex in jobs:
            rep.count('extractor', name)
            rep.case(('extractor', name, x.tobytes().hex()), True, sample=dict(check='extractor reads only', helper=name, N=N))
            try:
                y = f(seed)
                b = snap(y.data)
                r1 = numpy.array(ex(y), copy=True)
                if snap(y.data) != b:
                    rep.violation('extractor:mutates:' + name, 'UTPM.%s modifies the propagated polynomial it reads from' % name, dict(kind='extractor', helper=name, x=x.tolist(), v=v.tolist()))
                    continue
                r2 = numpy.asarray(ex(y))
                if not numpy.array_equal(r1, r2, equal_nan=True):
                    rep.violation('extractor:second-call:' + name, 'UTPM.%s gives another result when called a second time on the same polynomial' % name, dict(kind='extractor', helper=name))
            except Exception as e:
                rep.notes.append('extractor %s raised %r (decided by C09)' % (name, e))
        if snap(x) != x0 or snap(v) != v0:
            rep.violation('extractor:init-mutates', 'an init_* helper modified the point or direction it was given', dict(kind='extractor', x=x.tolist()))


def _as_tuple(o):
    if o is None:
        return ()
    return tuple(x for x in (o if isinstance(o, (tuple, list)) else (o,)) if hasattr(x, 'data'))


def _buffer_prog(algopy, x):
    y = algopy.zeros(2, dtype=x)
    y[0] = x[0] * x[1]
    y[1] = y[0] * x[0]
    return y[0] + y[1]


def main(tier, seed):
    algopy = lib.import_algopy()
    rep = Report(PID, tier, seed)
    rep.rule = ('(a) every registered operation: byte-wise snapshot (bytes, dtype, shape, strides) of each argument before/after the call; '
                '(b) x op x, x op= x, x op= view(x), x op= (plain-array view of a coefficient block of x), f(x,x) against the same expression on independent copies, exact on dyadic inputs; '
                '(c) _mul with out= aliasing x / y / both and __imul__ against the Coq store model, exact; (d) tracer programs: input and seed '
                'objects before/after recording, pushforward and two pullbacks; non-trivial = D>=2; distinct by full case content')
    rep.assumptions = ['whether a NumPy call mutates a buffer is a runtime fact: decided by snapshots, not by a theorem',
                       'the store model covers _mul and __imul__; the other kernels build their result in a temporary (checked by (a) and (b))']
    rep.theorems()
    rng = lib.rng_for(seed, PID)
    check_mutation(rep, algopy, rng, tier)
    check_alias(rep, algopy, rng, tier)
    check_store_model(rep, algopy, rng, tier)
    check_tracer(rep, algopy, rng, tier)
    check_pullback_rules(rep, algopy, rng, tier)
    check_driver_arguments(rep, algopy, rng, tier)
    check_own_coefficient_operands(rep, algopy, rng, tier)
    check_extractors(rep, algopy, rng, tier)
    import r9
    r9.c14_results_as_arguments(rep, algopy, rng, tier)
    return rep.finish()


def replay(path):
    pl = json.load(open(path))
    algopy = lib.import_algopy()
    rep = Report(PID, 'quick', pl.get('seed', 0))
    k = pl.get('kind')
    if k == 'mutation':
        case = pl['case']; op = ops.OPS[case['op']]
        inputs = [numpy.array(x, dtype=float) for x in case['inputs']]
        before = [snap(a) for a in inputs]
        op.run(algopy, case, inputs)
        rep.case('replay', True, sample=dict(op=case['op']))
        for i, (b, a) in enumerate(zip(before, inputs)):
            if snap(a) != b:
                rep.violation(pl['key'], pl['what'], dict(kind='mutation', case=case, argument=i))
    elif k in ('alias', 'store', 'tracer'):
        # re-run the whole (cheap) section with the recorded seed
        rng = lib.rng_for(pl.get('seed', 0), PID)
        check_mutation(rep, algopy, rng, 'quick'); check_alias(rep, algopy, rng, 'quick')
        check_store_model(rep, algopy, rng, 'quick'); check_tracer(rep, algopy, rng, 'quick')
    else:
        rep.theorems()
    return rep.finish()
